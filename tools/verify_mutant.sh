#!/bin/bash
# Usage: tools/verify_mutant.sh <mutant dir with patch.diff, demo/, meta.json> <scratch worktree>
# Confirms in a scratch worktree of /repo (current HEAD) that the change compiles, passes the pinned suite,
# and that its demonstration fails with the change and passes without it. Writes <mutant dir>/verified.json.
m="$1"; wt="$2"
cd "$wt" || exit 2
git checkout -q -- . ; git clean -fdq tests/tests examples 2>/dev/null
res() { echo "{\"applies\": $1, \"suite_passes_with_change\": $2, \"demo_fails_with_change\": $3, \"demo_passes_without_change\": $4, \"note\": \"$5\"}" > "$m/verified.json"; cat "$m/verified.json"; }
src="$m/patch.diff"; [ -f "$m/patch_ported.diff" ] && src="$m/patch_ported.diff"
if ! git apply --3way "$src" 2>/tmp/vm_apply.err && ! git apply "$src" 2>>/tmp/vm_apply.err; then res false null null null "patch does not apply to current HEAD"; git reset -q --hard HEAD; exit 0; fi
git reset -q
git diff > "$m/patch_current.diff"
# demo files: *.rs under demo/ go to tests/tests/
demos=$(ls "$m"/demo/*.rs 2>/dev/null)
for d in $demos; do cp "$d" tests/tests/; done
names=$(for d in $demos; do basename "$d" .rs; done)
# suite with the change (excluding demo binaries)
filter=""; for n in $names; do filter="$filter and not binary($n)"; done
cargo nextest run --workspace --no-fail-fast --offline --build-jobs 8 --test-threads 8 -E "all()$filter" > "$m/suite_with_change.log" 2>&1
passed=$(grep -E "Summary" "$m/suite_with_change.log" | grep -oE "[0-9]+ passed" | grep -oE "[0-9]+")
failed=$(grep -E "^\s+FAIL" "$m/suite_with_change.log" | grep -vE "https_works|wss_works" | sort -u | wc -l)
suite_ok=false; [ "$passed" = "281" ] && [ "$failed" = "0" ] && suite_ok=true
# demo with change
dfail=true
for n in $names; do
  if cargo test --offline -j 8 -p jsonrpsee-integration-tests --test "$n" > "$m/demo_with_change_$n.log" 2>&1; then dfail=false; fi
done
git checkout -q -- .
dpass=true
for n in $names; do
  if ! cargo test --offline -j 8 -p jsonrpsee-integration-tests --test "$n" > "$m/demo_without_change_$n.log" 2>&1; then dpass=false; fi
done
for d in $demos; do rm -f tests/tests/$(basename $d); done
res true $suite_ok $dfail $dpass "passed=$passed other_failures=$failed"

#!/bin/sh
# Usage: tools/try_mutant.sh <patch.diff> <Cxx> [<Cyy> ...]
# Applies a property-breaking patch to /repo, runs the quick checks of the given properties, and undoes the patch.
# Prints DETECTED/MISSED per property. /repo must be clean before.
# REPO_DIR / VERIF_HOME select a second sandbox (tools/sandbox_b.sh) so that a long sweep does not block /repo.
patch="$1"; shift
REPO_DIR="${REPO_DIR:-/repo}"; VERIF_HOME="${VERIF_HOME:-/verif}"
cd "$REPO_DIR" || exit 2
if [ -n "$(git status --porcelain --untracked-files=no)" ]; then echo "/repo not clean"; exit 2; fi
if ! git apply --3way "$patch" 2>/tmp/apply.err && ! git apply "$patch" 2>>/tmp/apply.err; then echo "APPLY-FAILED $patch"; cat /tmp/apply.err; git reset -q --hard HEAD; exit 3; fi
git reset -q
for p in "$@"; do
	out=$(cd "$VERIF_HOME" && ./check "$p" quick 2>&1); code=$?
	if [ $code -eq 1 ]; then echo "DETECTED $p: $(echo "$out" | grep -A1 '^VIOLATION' | head -4 | tr '\n' ' ')"; 
	elif [ $code -eq 0 ]; then echo "MISSED $p: $(echo "$out" | tail -1)";
	else echo "ERROR($code) $p: $(echo "$out" | tail -5)"; fi
done
cd "$REPO_DIR" && git reset -q --hard HEAD && git status --porcelain --untracked-files=no
rm -rf "$VERIF_HOME/replays"
# leave a harness binary built from the restored tree behind
(cd "$VERIF_HOME/sim" && cargo build --release --offline -q 2>/dev/null)

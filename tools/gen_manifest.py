#!/usr/bin/env python3
"""Regenerates /verif/MANIFEST.json from the table below (kept here so the manifest is always schema-valid)."""
import json, subprocess, sys, os

V = os.path.dirname(os.path.dirname(os.path.abspath(__file__)))
BASELINE = json.load(open('/root/.vp/BASELINE.json'))['cmd'] if os.path.exists('/root/.vp/BASELINE.json') else ''

CLAIMED = {
 # id: (level, engine, design_ref, technique, level text, level note)
 'C03': ('exploration', 'clisim', 'DESIGN.md §8 C03',
         'deterministic simulation: seeded task-gate scheduler + scripted adversarial peer, payload-nonce attribution oracle',
         'Seeded search over schedules of the real async client (front-end futures vs. send/read/shutdown tasks) and over answer orders/duplications of a scripted peer; every completion is attributed through unique nonces to the response carrying the id that request put on the wire. Sampling, not enumeration.',
         'A task poll is atomic; the peer is a script, not a real server; transport is in-memory (TransportSenderT/ReceiverT seam).'),
}

NA = {
 'C13': 'method registry: RpcModule mutation needs &mut self, histories are sequential; no schedule, clock, I/O or fault can influence the outcome - not a simulation target (plain model-based property testing would decide it)',
 'C14': 'host filter: the decision is a pure function of (allow-list, Host header, URI); nothing for a scheduler or fault injector to vary',
 'C15': 'wire types: pure serialise/parse round trips and an exhaustive i32 loop; no concurrency, time or I/O',
 'C16': 'params decoding: pure agreement of a hand-written parser with serde_json on one input string',
 'C17': 'generated APIs: value equality across encode -> decode of macro-generated stubs; independent of schedule, time and faults',
 'C20': 'params encoding: pure builder output',
}
PLANNED = {}
for i in ['C01','C02','C04','C05','C06','C07','C08','C09','C10','C11','C12','C18','C19']:
    if i not in CLAIMED:
        PLANNED[i] = 'not claimed yet: the simulation scenario for this property is designed (DESIGN.md §8) but its check is not built/validated in this commit'

def main():
    hooks_commits = subprocess.run(['git','-C','/repo','log','--format=%H %s','--grep=^verif hook'],capture_output=True,text=True).stdout.strip().splitlines()
    m = {
      'version': 1,
      'setup_cmd': 'cd /verif/sim && CARGO_NET_OFFLINE=true cargo build --release --offline',
      'hooks': {
        'guard': 'jsonrpsee_verif',
        'enable': 'rustflags --cfg jsonrpsee_verif --cfg tokio_unstable in /verif/sim/.cargo/config.toml; jrsim depends on the crates in /repo by path, so every ./check run rebuilds them from the working tree with hooks on',
        'baseline_off_cmd': BASELINE,
        'source_commits': [c.split()[0] for c in hooks_commits],
        'add_only': True,
      },
      'engines': [
        {'name':'simrt','path':'sim/src/rt.rs','serves_properties':sorted(CLAIMED),'kind_free_text':'seeded task-gate scheduler on a paused current-thread tokio runtime; choice tape; replay; shrinking (sim/src/search.rs)'},
        {'name':'clisim','path':'sim/src/cli','serves_properties':[k for k,v in sorted(CLAIMED.items()) if v[1]=='clisim'],'kind_free_text':'real async Client over simulated message transport + scripted peer'},
        {'name':'srvsim','path':'sim/src/srv','serves_properties':[k for k,v in sorted(CLAIMED.items()) if v[1]=='srvsim'],'kind_free_text':'real server (tower service, hyper http1, soketto, ws/http transports) over simulated byte streams + raw peers'},
      ],
      'checks': [],
      'not_applicable': [],
      'notes': 'Technique family: deterministic simulation with fault injection. ./check <id> quick|thorough; VERIF_SEED selects the seed (default 1). Exit 0 = held, 1 = VIOLATION line, 2 = harness error. Known findings: known_findings.json.',
    }
    for pid,(level,engine,ref,tech,text,note) in sorted(CLAIMED.items()):
        m['checks'].append({
          'property_id': pid,
          'quick_cmd': f'./check {pid} quick',
          'thorough_cmd': f'./check {pid} thorough',
          'evidence_file': f'/verif/evidence/{pid}.json',
          'replay_cmd_template': './check replay {path}',
          'engine': engine,
          'level_claimed': {'category': level, 'text': text, 'design_ref': ref},
          'level_note': note,
          'technique': tech,
        })
    for pid,r in sorted({**NA, **PLANNED}.items()):
        m['not_applicable'].append({'property_id': pid, 'reason': r})
    json.dump(m, open(os.path.join(V,'MANIFEST.json'),'w'), indent=1)
    try:
        import jsonschema
        jsonschema.validate(m, json.load(open('/root/.vp/MANIFEST.schema.json')))
        print('MANIFEST.json valid;', len(m['checks']), 'checks,', len(m['not_applicable']), 'not applicable')
    except ImportError:
        print('jsonschema not available; written without validation')
main()

#!/usr/bin/env python3
"""Regenerates /verif/MANIFEST.json from the table below (kept here so the manifest is always schema-valid)."""
import json, subprocess, sys, os

V = os.path.dirname(os.path.dirname(os.path.abspath(__file__)))
# the pinned suite command of /root/.vp/BASELINE.json, without its '(fallback: ...)' remark, guard off (no extra flags)
BASELINE = 'cd /repo && cargo nextest run --workspace --no-fail-fast --tool-config-file pb:/w/lib/nextest.toml --profile pb --test-threads 8 --offline'

CLAIMED = {
 # id: (level, engine, design_ref, technique, level text, level note)
 'C01': ('exploration', 'srvsim', 'DESIGN.md §8 C01',
         'deterministic simulation: real server on simulated byte streams, pipelined generated messages under a seeded scheduler with back-pressure and stream fragmentation; executable classifier as reference model; bipartite reply attribution',
         'Seeded search over message lists from a grammar (valid calls over all id forms/method names/params shapes, notifications, ids outside the domain, invalid objects, non-object JSON, non-JSON, leading whitespace), pipelined over WebSocket connections so that replies overtake each other, and sent as HTTP POSTs (direct tower call or hyper over a fragmenting simulated stream); four handler kinds; two server assemblies; every frame/body must be one well-formed response attributable to exactly one message by a maximum matching against the classifier, handlers run exactly for valid calls, HTTP and WebSocket agree. Sampling, not enumeration; the input grammar is seeded generation.',
         'A task poll is atomic; the classifier (sim/src/srv/model.rs) is trusted; Server::start accept loop not used (TowerService per connection); one known finding (invalid UTF-8 inside JSON-shaped text).'),
 'C02': ('exploration', 'srvsim', 'DESIGN.md §8 C02',
         'deterministic simulation: real server on simulated streams; generated batches pipelined between single calls and next to a live subscription under a seeded scheduler; classifier model + frame accounting ("nothing outside the array") + differential against the same entry sent alone',
         'Seeded search over arrays of 0-8 entries (C01 entry grammar, subscribe/unsubscribe calls, duplicate ids) x batch config Disabled/Limit/Unlimited x transport; the reply must be exactly one array (or the one specified error object, or nothing) with one matching response per call/invalid entry by maximum matching; every other frame on the connection must be explained by non-batch traffic; no entry runs for refused batches; each call entry is re-sent alone and must get the identical response object. Sampling, not enumeration.',
         'A task poll is atomic; classifier trusted; one known finding (subscribe entry in a WebSocket batch).'),
 'C04': ('exploration', 'srvsim', 'DESIGN.md §8 C04',
         'deterministic simulation: real server on simulated streams, remote-controlled subscription handlers, seeded director histories and schedules, injected disconnect/reset/stop; wire order vs. handler-side stamped send log',
         'Seeded search over histories of subscribe / handler commands / unsubscribe / abrupt disconnect / connection reset / server stop on 1-2 connections with write queues of 1-1024; each notification frame must belong to a subscription accepted on that connection, follow its accept response, and the delivered payloads must be an order-preserving, duplicate-free subsequence of the sends that returned Ok (all of them on a connection that stayed up); rejected/pending subscriptions produce nothing; sends invoked after the close instant fail and are not delivered; at most one closing notification. Sampling, not enumeration.',
         'A task poll is atomic; close instants are one-sided (successful unsubscribe finish stamp, server-side stream drop stamp).'),
 'C06': ('fault_enumeration', 'srvsim', 'DESIGN.md §8 C06',
         'deterministic simulation with fault injection: same world as C04; exact permit and subscriber-table reference models advanced by stamped events; disconnect/reset/stop swept over every step of fault-free base histories',
         'Seeded search plus, for base histories, an abrupt disconnect / reset / stop inserted before every step; unsubscribe must answer true exactly when the model has the id active on the same connection (own, foreign-connection, stale, garbage ids; colliding ids across connections); subscribes are refused with -32006 exactly when the per-connection permit model has no free slot and admitted otherwise; is_closed() false while active. Fault positions enumerated per base history; histories and schedules sampled.',
         'A task poll is atomic; the harness owns all sink clones.'),
 'C05': ('exploration', 'clisim', 'DESIGN.md §8 C05',
         'deterministic simulation: seeded scheduler + scripted peer pushing notifications singly/grouped; exact routing and buffer-occupancy reference model over stamped events',
         'Seeded search over push sequences (live/ended/unknown ids, close and method notifications, grouped into arrays in drawn ways), consumer paces, unsubscribe/drop points and task schedules; each stream is compared with an executable model that is advanced by the stamped events "push handed to the client" and "consumer took an item", so contents, order, end of stream, close reason and the number of unsubscribe requests on the wire are decided exactly for each explored run. Sampling, not enumeration.',
         'A task poll is atomic (the occupancy model relies on it); scripted peer; in-memory transport.'),
 'C07': ('exploration', 'srvsim', 'DESIGN.md §8 C07',
         'deterministic simulation as a configuration/entry-point swarm: two real servers that differ only in the response limit, boundary-sized requests pipelined over WebSocket and sent over three HTTP body framings through both assemblies; handler invocation log as oracle',
         'Seeded search over (request limit, two response limits) from an unequal grid x entry point x transport x body framing x sizes limit-1/limit/limit+1/2x/10x: nothing above the limit reaches a handler, WebSocket answers -32007/null once per oversized frame and keeps serving, HTTP answers an error status, messages up to the limit get their normal answer, and the two servers agree message by message. Schedule and faults matter little here (stated in the evidence); sampling, not enumeration.',
         'A task poll is atomic; Server::start accept loop not used.'),
 'C08': ('exploration', 'srvsim', 'DESIGN.md §8 C08',
         'deterministic simulation used as a wire-length monitor on every reply path with per-run limits; boundary workload by seeded generation; differential across two request limits',
         'Modest level: schedule and faults have no bearing on this property. Per run a response limit, two servers differing only in the request limit, calls whose exact serialized response is limit-3..limit+3 (ASCII/escapes/multi-byte/error data) and a batch whose exact total is limit-3..limit+3, over WebSocket and HTTP and both assemblies: every reply frame is within the limit or is the -32008/-32011 error, fitting replies (exactly at the limit included) arrive unchanged with the independently computed length, oversized ones are replaced by the specified error, outcomes do not depend on the request limit.',
         'Expected lengths are computed by the harness with format!; a task poll is atomic.'),
 'C09': ('fault_enumeration', 'clisim', 'DESIGN.md §8 C09',
         'deterministic simulation with fault injection: one transport fault or poison message per run, swept over every seam-event position of fault-free base runs and drawn randomly; seeded schedule search (incl. starvation of the shutdown watcher); cause oracle',
         'For each base run the fault (9 kinds: send error, receive error, peer close, 6 poison messages) is placed at every seam event (tx / peer push / delivery); on top of that seeded search over 29 fault kinds, positions and schedules. Oracle: no library panic, no operation left pending, every failed operation and on_disconnect carry the injected cause and never the placeholder, streams end, is_connected false. Positions are enumerated per base run; schedules and base runs are sampled.',
         'A task poll is atomic; one fault per run; overflow-checks on (as in a debug build); scripted peer.'),
 'C10': ('fault_enumeration', 'srvsim', 'DESIGN.md §8 C10',
         'deterministic simulation with fault injection: stop() placed before every step of stop-free base histories and at drawn steps; real Server::start on a simulated listener (hook H4) or TowerService per connection; seeded schedules; answered/stopped oracle over stamped events',
         'Histories of WebSocket / HTTP calls with drawn handler latency, subscriptions and peer disconnects on 0-4 connections; stop() is swept over every step of base histories and drawn randomly; second stop(). Oracle: every call whose handler start is logged is answered to a peer that kept reading; when stopped() resolves every server-side stream has already been dropped; no handler starts afterwards (a late connection is tried); stopped() resolves and the run reaches quiescence; no library panic. Stop positions enumerated per base history; histories and schedules sampled.',
         'A task poll is atomic; peers never stall mid-request.'),
 'C11': ('fault_enumeration', 'srvsim', 'DESIGN.md §8 C11',
         'deterministic simulation with fault injection: open/close/abort histories with aborts at lifecycle steps (incl. reset in the middle of the upgrade handshake under a bounded stream buffer) against limits 0-3; one-sided slot model over stamped events; refill phase after every history',
         'Seeded histories of {open WebSocket, HTTP call with handler latency, graceful close, abrupt reset, reset mid-handshake, refused upgrade} on Server::start (simulated listener) or TowerService per connection; an attempt admitted while the model has max sessions definitely open, or refused with 429 after everything earlier has definitely finished (stream gone and system idle since), is a violation; after every history max sessions must be admissible again and the (max+1)-th refused with 429; refused HTTP calls run no handler. In addition one abort (session reset / reset mid-handshake / HTTP client reset mid-call / refused upgrade) is inserted before every step of abort-free base histories (positions enumerated per base history); histories and schedules are sampled; the refill phase runs after every history. With pings on (hook H6) silent peers must be closed by the server and their slots freed.',
         'A task poll is atomic; slot model one-sided (documented in DESIGN.md).'),
 'C12': ('exploration', 'clisim', 'DESIGN.md §8 C12',
         'deterministic simulation: seeded scheduler; scripted peer / harness HTTP backend replying with permuted, short, duplicated, foreign and mixed batch replies; positional oracle shared by both clients',
         'Seeded search over batch sizes 1-6, several batches and calls in flight, both id kinds, reply shapes (permutation / subset / duplicate / foreign id / two batches mixed) for the async (WebSocket-style) client and the HttpClient; every returned entry must be attributable to a reply element with exactly that id, list length and counters must match the request. Sampling, not enumeration.',
         'A task poll is atomic; HttpClient runs above a tower layer that stands in for the hyper connection pool.'),
 'C18': ('exploration', 'clisim', 'DESIGN.md §8 C18',
         'deterministic simulation: seeded histories of client operation cycles with acknowledgements in drawn order and seeded schedules; table-size invariant read through hook H5 at quiescence',
         'Seeded search over histories of {call, batch, notification, subscribe accepted/refused/malformed/duplicate id, unsubscribe, drop, server-side close, lag-closure, notification-handler register/unregister/lag} run by 1-3 concurrent front-end tasks against a peer that acknowledges everything in drawn order; once the simulator reports quiescence all four internal tables must be empty and a later message bearing an identifier of finished work must leave no state. Sampling, not enumeration.',
         'A task poll is atomic; table sizes come from hook H5 (weak handle); scripted peer.'),
 'C19': ('exploration', 'srvsim', 'DESIGN.md §8 C19',
         'deterministic simulation: the HTTP request body is a simulator-owned frame stream (arbitrary frame sequences, Pending and virtual delays between frames, trailers, with/without Content-Length) or travels through hyper with chunked encoding over a fragmenting simulated stream; differential oracle against the same bytes in one frame',
         'Seeded search over methods, content-type spellings and body frame sequences (1-7 frames incl. empty and whitespace-only ones, cut points biased to the sniffing window) and delivery timing; non-POST must give 405, non-JSON content types 415 with no handler run; an accepted request must get the same status and body as the same bytes sent as one frame with Content-Length. Sampling, not enumeration.',
         'A task poll is atomic; when hyper drops the connection after an early error response only the status is compared.'),
 'C03': ('exploration', 'clisim', 'DESIGN.md §8 C03',
         'deterministic simulation: seeded task-gate scheduler + scripted adversarial peer, payload-nonce attribution oracle',
         'Seeded search over schedules of the real async client (front-end futures vs. send/read/shutdown tasks) and over answer orders/duplications of a scripted peer; every completion is attributed through unique nonces to the response carrying the id that request put on the wire. Sampling, not enumeration.',
         'A task poll is atomic; the peer is a script, not a real server; transport is in-memory (TransportSenderT/ReceiverT seam).'),
}


# additions of round 2 (appended to the level text)
ROUND2 = {
 'C01': ' Round 2: server pings on the virtual clock (hook H6) in a sixth of the runs with a peer that is idle but answers pings for longer than the inactivity limit before the last message - the connection must keep serving.',
 'C03': ' Round 2: the simulated receive is not cancel-safe (a message is handed over in two steps; a dropped receive future loses it), client ping / inactivity timers tick on the virtual clock (hook H7) in a fifth of the runs, full-stack variant (library client over the library WebSocket transport against the library server) with real ping / pong frames.',
 'C04': ' Round 2: the instant at which stopped() resolves is a close instant (sends started after it must fail); 300 ms calls in flight at stop; handlers that return while a worker task keeps the sink.',
 'C05': ' Round 2: receive that is not cancel-safe, client ping / inactivity ticks (hook H7).',
 'C06': ' Round 2: the subscription callback may return while a spawned worker keeps the sink and its clones (the subscription stays active and keeps its slot until the worker lets go).',
 'C07': ' Round 2: direct tower calls whose Content-Length header understates the body.',
 'C08': ' Round 2: batch entries answered by slow asynchronous handlers (completion order differs from request order), a blocking handler that panics with a message as long as the limit.',
 'C09': ' Round 2: subscription handles dropped by the application (the automatic unsubscribe may be the send that fails), send errors on a connection that is dead both ways, client pings with a peer that goes silent (the client gives up for inactivity and that cause must reach everything pending), a peer that goes silent without pings and a transport send that never completes (then every call, batch and subscribe must still end within its request timeout; also swept as a tenth fault kind).',
 'C11': ' Round 2: calls that never finish before the end of the history, server-side graceful close of one session (connection with a stop channel of its own; a draining session with a call executing counts as open), a silent peer with a call executing (must still be closed for inactivity and free its slot).',
 'C12': ' Round 2: reply elements are attributed by the nonce of the request the peer meant them for, so id reuse between requests in flight is visible.',
 'C18': ' Round 2: a subscribe that was given up gets no reminder notification (and a server that stays quiet) when the request queue cannot be full.',
 'C19': ' Round 2: bodies beyond the request limit (must be refused in the same way whatever the framing - found defect 15), a complete call followed by padding beyond the limit, leading whitespace of 100-140 bytes cut into several chunks.',
}

# additions of round 3 (appended after ROUND2)
ROUND3 = {
 'C01': ' Round 3: direct HTTP calls with the body streamed in two frames without Content-Length; a keep-alive connection whose requests arrive unfragmented must keep serving after every reply.',
 'C03': ' Round 3: notifications packed into batch replies, subscription buffers of 1 / 2, handles dropped mid-run, close notifications crossing an unsubscribe, subscription ids handed out again at once.',
 'C04': ' Round 3: subscription ids dealt again after a successful unsubscribe (items attributed by unique payload), handlers that retry with the message a timed-out / full send returns.',
 'C05': ' Round 3: the server closes a subscription and deals its id to a new one before the application drops the old, ended handle (found defect 16); same for a notification handler registered again after lag removal.',
 'C06': ' Round 3: subscription ids dealt again after a successful unsubscribe.',
 'C07': ' Round 3: buffered bodies of known size without a Content-Length header; with server pings on a peer that never pongs stays alive through its messages, the refused oversized one included.',
 'C08': ' Round 3: HTTP over a connection (low-level HTTP entry point), tiny limits (38-40 bytes) with an unsubscribe reply at the limit.',
 'C09': ' Round 3: an on_disconnect() watcher that has been waiting since before the failure must see the same cause. Round 7: every eighth run the poison message is long and multi-byte (6-12 KB of 2-, 3- or 4-byte characters at every alignment), so that a cut or index at any byte offset of the echoed message meets the inside of a character in some run.',
 'C10': ' Round 3: subscribe calls whose handler accepts late (possibly after the stop, under back-pressure) must be answered; never-ending calls whose peer sends one more frame after the stop and then leaves must not keep stopped() from resolving.',
 'C11': ' Round 3: aborted HTTP calls whose handler never ends (the slot must come back because the client left).',
 'C19': ' Round 3: a service with the GET proxy layer: HEAD / OPTIONS / TRACE / PUT / DELETE / PATCH stay 405 and reach no handler on mapped paths too.',
}

# additions of round 5 (preemption points, hook H8)
ROUND5 = {
 'C01': ' Round 5: objects whose id member occurs twice (same or different representable values) must be answered as invalid requests, not dropped as notifications (found defect 29).',
 'C02': ' Round 5: batch entries whose id member occurs twice are invalid entries with a recoverable id (defect 29).',
 'C07': ' Round 5: a hand-written WebSocket peer sends the header (and one kilobyte) of a single frame announcing 2^28+1 bytes or more: the server must not close the connection over it (found defect 28).',
 'C08': ' Round 5: subscribe calls over WebSocket - the accepting response carries a scripted string subscription id sized around the limit, the rejecting response the handler\'s error object with data sized around the limit (found defect 26); a subscription\'s notifications are not replies and are not measured.',
 'C12': ' Round 5: a reply that answers one id twice must fail the call or report that entry as an error - the client must not pick one of the answers (found defect 25; judged when one reply message alone ever addressed the id).',
 'C04': ' Round 5: every fourth run carries preemption points (hook H8): accept() / reject() may be descheduled - for a drawn number of scheduler turns or 1-5 ms of virtual time - right after their response has been queued, which is the place where a thread of a multi-threaded runtime can lose the CPU between two statements that have no await between them; in those runs a client may unsubscribe the moment it holds the accepting response.',
 'C06': ' Round 5: every fourth run carries preemption points (hook H8) inside accept() / reject() (descheduled after the response has been queued, for a drawn number of scheduler turns or 1-5 ms of virtual time) together with a client that unsubscribes the moment it holds the accepting response: such an unsubscribe must be answered true (found defect 24); an unsubscribe for a guessed id that is decided between the call and the return of accept() may be answered either way. Likewise a peer that subscribes again the moment it holds a rejection must find the slot free (found defect 27); the permit model has two instants for a subscription being rejected: its slot may be free from the call of reject() on and must be free once reject() has returned or the peer holds the rejection.',
}

NA = {
 'C13': 'method registry: RpcModule mutation needs &mut self, histories are sequential; no schedule, clock, I/O or fault can influence the outcome - not a simulation target (plain model-based property testing would decide it)',
 'C14': 'host filter: the decision is a pure function of (allow-list, Host header, URI); nothing for a scheduler or fault injector to vary',
 'C15': 'wire types: pure serialise/parse round trips and an exhaustive i32 loop; no concurrency, time or I/O',
 'C16': 'params decoding: pure agreement of a hand-written parser with serde_json on one input string',
 'C17': 'generated APIs: value equality across encode -> decode of macro-generated stubs; independent of schedule, time and faults',
 'C20': 'params encoding: pure builder output',
}
PLANNED = {}
for i in ['C01','C02','C04','C05','C06','C07','C08','C09','C10','C11','C12','C18','C19']:
    if i not in CLAIMED:
        PLANNED[i] = 'not claimed yet: the simulation scenario for this property is designed (DESIGN.md §8) but its check is not built/validated in this commit'

def main():
    hooks_commits = subprocess.run(['git','-C','/repo','log','--format=%H %s','--grep=^verif hook'],capture_output=True,text=True).stdout.strip().splitlines()
    m = {
      'version': 1,
      'setup_cmd': 'cd /verif/sim && CARGO_NET_OFFLINE=true cargo build --release --offline',
      'hooks': {
        'guard': 'jsonrpsee_verif',
        'enable': 'rustflags --cfg jsonrpsee_verif --cfg tokio_unstable in /verif/sim/.cargo/config.toml; jrsim depends on the crates in /repo by path, so every ./check run rebuilds them from the working tree with hooks on',
        'baseline_off_cmd': BASELINE,
        'source_commits': [c.split()[0] for c in hooks_commits],
        'add_only': True,
      },
      'engines': [
        {'name':'simrt','path':'sim/src/rt.rs','serves_properties':sorted(CLAIMED),'kind_free_text':'seeded task-gate scheduler on a paused current-thread tokio runtime; choice tape; replay; shrinking (sim/src/search.rs)'},
        {'name':'clisim','path':'sim/src/cli','serves_properties':[k for k,v in sorted(CLAIMED.items()) if v[1]=='clisim'],'kind_free_text':'real async Client over simulated message transport + scripted peer'},
        {'name':'srvsim','path':'sim/src/srv','serves_properties':[k for k,v in sorted(CLAIMED.items()) if v[1]=='srvsim'],'kind_free_text':'real server (tower service, hyper http1, soketto, ws/http transports) over simulated byte streams + raw peers'},
      ],
      'checks': [],
      'not_applicable': [],
      'notes': 'Technique family: deterministic simulation with fault injection. ./check <id> quick|thorough; VERIF_SEED selects the seed (default 1). Exit 0 = held, 1 = VIOLATION line, 2 = harness error. Known findings: known_findings.json.',
    }
    for pid,(level,engine,ref,tech,text,note) in sorted(CLAIMED.items()):
        m['checks'].append({
          'property_id': pid,
          'quick_cmd': f'./check {pid} quick',
          'thorough_cmd': f'./check {pid} thorough',
          'evidence_file': f'/verif/evidence/{pid}.json',
          'replay_cmd_template': './check replay {path}',
          'engine': engine,
          'level_claimed': {'category': level, 'text': text + ROUND2.get(pid, '') + ROUND3.get(pid, '') + ROUND5.get(pid, ''), 'design_ref': ref},
          'level_note': note,
          'technique': tech,
        })
    for pid,r in sorted({**NA, **PLANNED}.items()):
        m['not_applicable'].append({'property_id': pid, 'reason': r})
    json.dump(m, open(os.path.join(V,'MANIFEST.json'),'w'), indent=1)
    try:
        import jsonschema
        jsonschema.validate(m, json.load(open('/root/.vp/MANIFEST.schema.json')))
        print('MANIFEST.json valid;', len(m['checks']), 'checks,', len(m['not_applicable']), 'not applicable')
    except ImportError:
        print('jsonschema not available; written without validation')
main()

#!/bin/bash
# Maintenance tool: a second sandbox (/tmp/repoB = git worktree of /repo HEAD, /tmp/verifB = copy of /verif whose
# harness crate points at /tmp/repoB) so that long sweeps over the seeded changes do not occupy /repo.
#   tools/sandbox_b.sh            create / refresh
#   REPO_DIR=/tmp/repoB VERIF_HOME=/tmp/verifB /tmp/verifB/tools/run_seeded.sh    sweep there
#   tools/sandbox_b.sh remove     remove both
if [ "$1" = remove ]; then git -C /repo worktree remove --force /tmp/repoB 2>/dev/null; rm -rf /tmp/verifB; exit 0; fi
if [ -d /tmp/repoB ]; then git -C /tmp/repoB checkout -q --detach "$(git -C /repo rev-parse HEAD)" && git -C /tmp/repoB reset -q --hard; else git -C /repo worktree add -q --detach /tmp/repoB HEAD; fi
mkdir -p /tmp/verifB
rsync -a --delete --exclude sim/target --exclude .git --exclude replays /verif/ /tmp/verifB/
sed -i 's#path = "/repo/#path = "/tmp/repoB/#' /tmp/verifB/sim/Cargo.toml
(cd /tmp/verifB/sim && CARGO_NET_OFFLINE=true cargo build --release --offline -q) && echo "sandbox B ready at $(git -C /tmp/repoB rev-parse --short HEAD)"

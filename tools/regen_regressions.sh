#!/bin/bash
# Re-records the replay files under /verif/regressions/ against the CURRENT scenarios: for every repaired defect the
# repair is reverted in /repo's working tree (git apply -R), the property's quick check is run, the first violation's
# minimised replay is stored, and /repo is restored. Maintenance tool; run after scenario changes. /repo must be clean.
set -u
cd /repo || exit 2
[ -n "$(git status --porcelain --untracked-files=no)" ] && { echo "/repo not clean"; exit 2; }
while read -r commit prop name; do
  [ -z "$commit" ] && continue
  git show "$commit" -- . ':!*.md' > /tmp/regen.diff
  if ! git apply -R --3way /tmp/regen.diff 2>/tmp/regen.err; then
    echo "SKIP $name: repair $commit cannot be reverted on its own (overlaps a later change)"; git reset -q --hard HEAD; continue
  fi
  git reset -q
  rm -rf /verif/replays
  out=$(cd /verif && VERIF_DIR=/verif ./check "$prop" quick 2>&1)
  f=$(echo "$out" | grep '^VIOLATION' | grep -m1 'replay=/verif/replays/' | sed 's/.*replay=\([^ ]*\).*/\1/')
  if echo "$out" | grep -q "regressions/$name.json (regression file reproduces"; then
    echo "KEPT $name: the existing file still reproduces the defect with $commit reverted"
  elif [ -n "$f" ] && [ -f "$f" ] && [[ "$f" == /verif/replays/* ]]; then
    cp "$f" "/verif/regressions/$name.json"; echo "OK   $name <- $(basename "$f")"
  else
    echo "NONE $name: no violation with $commit reverted ($(echo "$out" | tail -1))"
  fi
  git reset -q --hard HEAD
done <<'LIST'
9f1ce6d C09 C09-panic-batch-reply-id-u64max
83ad35b C09 C09-placeholder-send-error-race
a9c9156 C05 C05-close-notification-inside-array
a303a0f C12 C12-http-short-reply-shorter-list
a9f3aa2 C05 C05-lagged-stream-continues-after-gap
52e698b C18 C18-residue-subscribe-unsubscribe
7c346f2 C09 C09-hanging-close-stalls-pending-calls
a0fd790 C01 C01-blocking-panic-answered-with-id-null
02003cd C19 C19-whitespace-only-first-chunk
48d107d C03 C03-overlapping-batch-id-ranges
e3e2fb6 C18 C18-cancelled-subscribe-never-unsubscribed
76abf8b C06 C06-sink-clone-drop-ends-subscription
82f6e37 C07 C07-ws-connect-uses-response-limit
d862e19 C02 C02-array-shaped-entry-parsed-positionally
eb4291f C19 C19-streamed-oversize-answered-500
ce92150 C05 C05-stale-handle-closes-successor
79f0862 C12 C12-batch-reply-id-of-other-json-type
d63250d C09 C09-send-hangs-while-read-side-fails
eca7f36 C18 C18-orphan-notification-handler
17b7272 C10 C10-oversized-frame-aborts-graceful-wait
990294b C11 C11-get-proxy-turns-429-into-500
100d1a6 C07 C07-get-proxy-stale-content-length
ae42e46 C19 C19-upgrade-headers-on-non-get
a0f137c C06 C06-unsubscribe-false-right-after-accept-response
97dc7d4 C12 C12-repeated-id-last-answer-wins
9f80659 C08 C08-subscribe-accept-reply-not-bounded
f98c74e C06 C06-slot-held-after-rejection-seen
ef665ea C07 C07-huge-frame-header-closes-connection
2d2e0bb C01 C01-duplicated-id-member-taken-for-notification
LIST
rm -rf /verif/replays
(cd /verif/sim && cargo build --release --offline -q 2>/dev/null)
echo DONE

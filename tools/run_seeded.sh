#!/bin/bash
# Applies every seeded change under /verif/seeded/ to /repo in turn, runs the quick check(s) named in its meta.json,
# and restores /repo. Writes /verif/seeded/RESULTS.txt. /repo must be clean. (About 1 minute per change.)
VERIF_HOME="${VERIF_HOME:-/verif}"; export VERIF_HOME
cd "$VERIF_HOME" || exit 2
: > seeded/RESULTS.txt
for d in seeded/C*-m*; do
  checks=$(python3 -c "import json;print(' '.join(json.load(open('$d/meta.json'))['checks_run']))")
  res=$(tools/try_mutant.sh "$PWD/$d/patch.diff" $checks 2>&1 | grep -E "^(DETECTED|MISSED|ERROR|APPLY-FAILED|/repo not clean)" | sed 's/ replay=[^ ]*//g' | cut -c1-200 | tr '\n' ';')
  echo "$(basename $d): $res" | tee -a seeded/RESULTS.txt
done

#!/usr/bin/env python3
"""Copies verified property-breaking changes from /tmp/mut-<id>/m<k> (round 1) and /tmp/mut2-<id>/m<k> (round 2)
into /verif/seeded/<ID>-m<k>/ resp. /verif/seeded/<ID>-r2-m<k>/ ."""
import json, os, shutil, sys, glob
DET = json.load(open('/verif/tools/seeded_detection.json'))
for d in sorted(glob.glob('/tmp/mut-c*/m*') + glob.glob('/tmp/mut2-c*/m*') + glob.glob('/tmp/mut3-c*/m*') + glob.glob('/tmp/mut4-c*/m*') + glob.glob('/tmp/mut6-c*/m*') + glob.glob('/tmp/mut7-c*/m*')):
    base = os.path.basename(os.path.dirname(d))
    rnd = 7 if base.startswith('mut7-') else 6 if base.startswith('mut6-') else 4 if base.startswith('mut4-') else 3 if base.startswith('mut3-') else 2 if base.startswith('mut2-') else 1
    pid = base.replace('mut7-','').replace('mut6-','').replace('mut4-','').replace('mut3-','').replace('mut2-','').replace('mut-','').upper()
    k = os.path.basename(d)
    key = f'{pid}-{k}' if rnd == 1 else f'{pid}-r{rnd}-{k}'
    vf = os.path.join(d,'verified.json')
    if not os.path.exists(vf): continue
    v = json.load(open(vf))
    if not (v.get('applies') and v.get('suite_passes_with_change') and v.get('demo_fails_with_change') and v.get('demo_passes_without_change')):
        print('SKIP (not confirmed)', key, v); continue
    out = f'/verif/seeded/{key}'
    if os.path.exists(out+'/patch.diff') and not os.environ.get('FORCE'):
        # already collected (its patch may have been ported onto a later repair by hand since): only refresh the
        # detection record
        try:
            meta = json.load(open(out+'/meta.json'))
            det = DET.get(key, {})
            if det:
                meta['checks_run'] = det.get('checks', meta.get('checks_run', [pid]))
                meta['detected_by'] = det.get('detected_by', meta.get('detected_by', []))
                meta['detection_history'] = det.get('history', meta.get('detection_history', ''))
                json.dump(meta, open(out+'/meta.json','w'), indent=1)
        except Exception as e:
            print('meta refresh failed', key, e)
        print('ok', key, '(kept)')
        continue
    os.makedirs(out+'/demo', exist_ok=True)
    src = os.path.join(d,'patch_current.diff')
    shutil.copy(src, out+'/patch.diff')
    if os.path.exists(os.path.join(d,'patch_ported.diff')):
        shutil.copy(os.path.join(d,'patch.diff'), out+'/patch_as_delivered.diff')
    for f in glob.glob(d+'/demo/*'):
        if os.path.isfile(f): shutil.copy(f, out+'/demo/')
    try: am = json.load(open(os.path.join(d,'meta.json')))
    except Exception: am = {}
    det = DET.get(key, {})
    meta = {
      'property': pid,
      'breaks': am.get('summary',''),
      'needs_to_manifest': am.get('needs',''),
      'files': am.get('files',[]),
      'origin': 'written by an independent sub-agent that saw only the property text and a scratch worktree of /repo',
      'ported': os.path.exists(os.path.join(d,'patch_ported.diff')) and 'the delivered patch conflicted with a later fix: commit in /repo and was re-applied by hand to the same effect (patch_as_delivered.diff is the original)' or False,
      'confirmed_in_scratch_worktree': {
          'worktree_head': det.get('head','current /repo HEAD at the time'),
          'what_was_run': ['git apply patch.diff', 'cargo nextest run --workspace --no-fail-fast --offline (281 passed, only https_works / wss_works fail, as on the unchanged tree)', 'cargo test -p jsonrpsee-integration-tests --test <demo> with the change (fails)', 'git checkout -- . ; same demo (passes)'],
          **v},
      'checks_run': det.get('checks', [pid]),
      'detected_by': det.get('detected_by', []),
      'detection_history': det.get('history',''),
    }
    json.dump(meta, open(out+'/meta.json','w'), indent=1)
    print('ok', key)

mod cli;
mod rt;
mod search;
mod srv;
mod checks;

use std::path::Path;

fn main() {
	let args: Vec<String> = std::env::args().collect();
	let checks = checks::all();
	let code = match args.get(1).map(|s| s.as_str()) {
		Some("check") => {
			let prop = args.get(2).expect("property id");
			let tier = args.get(3).map(|s| s.as_str()).unwrap_or("quick");
			match checks.iter().find(|c| c.prop == prop) {
				Some(c) => search::run_check(c, tier),
				None => {
					eprintln!("HARNESS-ERROR: no check for {prop}");
					2
				}
			}
		}
		Some("replay") => search::run_replay(&checks, Path::new(args.get(2).expect("replay file"))),
		Some("diff") => {
			// run one seed twice and show the first divergence of the event logs
			let prop = args.get(2).expect("property id");
			let scen_name = args.get(3).expect("scenario");
			let seed: u64 = args.get(4).expect("seed").parse().unwrap();
			let c = checks.iter().find(|c| c.prop == prop).expect("check");
			let scen = c.scens.iter().find(|s| s.name == scen_name).expect("scenario");
			let empty = std::collections::BTreeMap::new();
			let a = search::run_scen(scen, seed, None, false, &empty, true);
			let b = search::run_scen(scen, seed, None, false, &empty, true);
			let mut code = 0;
			for (i, (x, y)) in a.log.iter().zip(b.log.iter()).enumerate() {
				if x != y {
					for l in &a.log[i.saturating_sub(15)..i] {
						println!("  {l}");
					}
					println!("A {x}\nB {y}");
					code = 1;
					break;
				}
			}
			if code == 0 && a.log.len() != b.log.len() {
				println!("lengths differ {} {}", a.log.len(), b.log.len());
				code = 1;
			}
			if code == 0 {
				println!("identical ({} events, hash {:016x})", a.log.len(), a.hash);
			}
			code
		}
		Some("show") => {
			// run one seed and print its event log (first / last N lines)
			let prop = args.get(2).expect("property id");
			let scen_name = args.get(3).expect("scenario");
			let seed: u64 = args.get(4).expect("seed").parse().unwrap();
			let c = checks.iter().find(|c| c.prop == prop).expect("check");
			let scen = c.scens.iter().find(|s| s.name == scen_name).expect("scenario");
			let empty = std::collections::BTreeMap::new();
			let a = search::run_scen(scen, seed, None, false, &empty, true);
			for l in a.log.iter().filter(|l| !l.contains("] run ")) {
				println!("{l}");
			}
			println!("end={:?} steps={}", a.end, a.steps);
			0
		}
		Some("list") => {
			for c in &checks {
				println!("{} {} scenarios={:?}", c.prop, c.level, c.scens.iter().map(|s| s.name).collect::<Vec<_>>());
			}
			0
		}
		_ => {
			eprintln!("usage: jrsim check <Cxx> quick|thorough | replay <file> | list");
			2
		}
	};
	std::process::exit(code);
}

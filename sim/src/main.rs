mod cli;
mod full;
mod rt;
mod search;
mod srv;
mod checks;

use std::path::Path;

fn main() {
	let args: Vec<String> = std::env::args().collect();
	let checks = checks::all();
	let code = match args.get(1).map(|s| s.as_str()) {
		Some("check") => {
			let prop = args.get(2).expect("property id");
			let tier = args.get(3).map(|s| s.as_str()).unwrap_or("quick");
			match checks.iter().find(|c| c.prop == prop) {
				Some(c) => search::run_check(c, tier),
				None => {
					eprintln!("HARNESS-ERROR: no check for {prop}");
					2
				}
			}
		}
		Some("replay") => search::run_replay(&checks, Path::new(args.get(2).expect("replay file"))),
		Some("diff") => {
			// run one seed twice and show the first divergence of the event logs
			let prop = args.get(2).expect("property id");
			let scen_name = args.get(3).expect("scenario");
			let seed: u64 = args.get(4).expect("seed").parse().unwrap();
			let c = checks.iter().find(|c| c.prop == prop).expect("check");
			let scen = c.scens.iter().find(|s| s.name == scen_name).expect("scenario");
			let empty = std::collections::BTreeMap::new();
			let a = search::run_scen(scen, seed, None, false, &empty, true);
			let b = search::run_scen(scen, seed, None, false, &empty, true);
			let mut code = 0;
			for (i, (x, y)) in a.log.iter().zip(b.log.iter()).enumerate() {
				if x != y {
					for l in &a.log[i.saturating_sub(15)..i] {
						println!("  {l}");
					}
					println!("A {x}\nB {y}");
					code = 1;
					break;
				}
			}
			if code == 0 && a.log.len() != b.log.len() {
				println!("lengths differ {} {}", a.log.len(), b.log.len());
				code = 1;
			}
			if code == 0 {
				println!("identical ({} events, hash {:016x})", a.log.len(), a.hash);
			}
			code
		}
		Some("show") => {
			// run one seed and print its event log (first / last N lines)
			let prop = args.get(2).expect("property id");
			let scen_name = args.get(3).expect("scenario");
			let seed: u64 = args.get(4).expect("seed").parse().unwrap();
			let c = checks.iter().find(|c| c.prop == prop).expect("check");
			let scen = c.scens.iter().find(|s| s.name == scen_name).expect("scenario");
			let empty = std::collections::BTreeMap::new();
			let a = search::run_scen(scen, seed, None, false, &empty, true);
			for l in a.log.iter().filter(|l| !l.contains("] run ")) {
				println!("{l}");
			}
			println!("end={:?} steps={}", a.end, a.steps);
			0
		}
		Some("selftest") => {
			// determinism proof protocol: every scenario x N seeds, each executed twice in-process on 16 worker
			// threads and once more on a single thread; event-log hashes must agree
			let n: u64 = args.get(2).and_then(|s| s.parse().ok()).unwrap_or(400);
			let no_params = std::collections::BTreeMap::new();
			let preempt_params = std::collections::BTreeMap::from([("preempt".to_string(), 1u64)]);
			let mut bad = 0u64;
			let mut total = 0u64;
			for c in &checks {
				// (scenarios with preemption points, hook H8, are proved once more with the points switched on)
				for (scen, empty) in c.scens.iter().flat_map(|s| {
					let mut v = vec![(s, &no_params)];
					if search::PREEMPT_SCENS.contains(&s.name) {
						v.push((s, &preempt_params));
					}
					v
				}) {
					let hashes: Vec<std::sync::Mutex<(u64, u64)>> = (0..n).map(|_| std::sync::Mutex::new((0, 0))).collect();
					let next = std::sync::atomic::AtomicU64::new(0);
					std::thread::scope(|sc| {
						for _ in 0..16 {
							sc.spawn(|| loop {
								let i = next.fetch_add(1, std::sync::atomic::Ordering::Relaxed);
								if i >= n {
									break;
								}
								let a = search::run_scen(scen, 1000 + i, None, false, empty, false);
								let b = search::run_scen(scen, 1000 + i, None, false, empty, true);
								*hashes[i as usize].lock().unwrap() = (a.hash, b.hash);
							});
						}
					});
					let mut mism = 0;
					for i in 0..n {
						let (a, b) = *hashes[i as usize].lock().unwrap();
						let c1 = search::run_scen(scen, 1000 + i, None, false, empty, false);
						if a != b || a != c1.hash {
							mism += 1;
							if mism <= 3 {
								println!("NONDETERMINISM {} {} seed {}: {:016x} {:016x} {:016x}", c.prop, scen.name, 1000 + i, a, b, c1.hash);
							}
						}
					}
					total += n;
					bad += mism;
					println!("{} {}{}: {} seeds x 3 executions (2 on 16 threads, 1 on the main thread): {} mismatches", c.prop, scen.name, if empty.is_empty() { "" } else { " (preempt)" }, n, mism);
				}
			}
			println!("selftest: {total} seeds, {bad} mismatches");
			if bad > 0 { 2 } else { 0 }
		}
		Some("list") => {
			for c in &checks {
				println!("{} {} scenarios={:?}", c.prop, c.level, c.scens.iter().map(|s| s.name).collect::<Vec<_>>());
			}
			0
		}
		_ => {
			eprintln!("usage: jrsim check <Cxx> quick|thorough | replay <file> | list");
			2
		}
	};
	std::process::exit(code);
}

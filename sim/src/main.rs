mod cli;
mod rt;
mod search;
mod checks;

use std::path::Path;

fn main() {
	let args: Vec<String> = std::env::args().collect();
	let checks = checks::all();
	let code = match args.get(1).map(|s| s.as_str()) {
		Some("check") => {
			let prop = args.get(2).expect("property id");
			let tier = args.get(3).map(|s| s.as_str()).unwrap_or("quick");
			match checks.iter().find(|c| c.prop == prop) {
				Some(c) => search::run_check(c, tier),
				None => {
					eprintln!("HARNESS-ERROR: no check for {prop}");
					2
				}
			}
		}
		Some("replay") => search::run_replay(&checks, Path::new(args.get(2).expect("replay file"))),
		Some("list") => {
			for c in &checks {
				println!("{} {} scenarios={:?}", c.prop, c.level, c.scens.iter().map(|s| s.name).collect::<Vec<_>>());
			}
			0
		}
		_ => {
			eprintln!("usage: jrsim check <Cxx> quick|thorough | replay <file> | list");
			2
		}
	};
	std::process::exit(code);
}

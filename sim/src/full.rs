//! Full-stack scenarios: the real async client (over `jsonrpsee-client-transport`'s WebSocket transport,
//! `build_with_stream`) talking to the real server over a SimStream. They support the single-sided checks — a harness
//! that misrepresents the other side would show here — and give C03 / C12 / C09 an end-to-end variant: both ends are
//! library code, the simulator owns only the byte stream in between, the scheduler and the clock.

use std::sync::atomic::{AtomicU64, Ordering};
use std::sync::{Arc, Mutex};
use std::time::Duration;

use jsonrpsee_client_transport::ws::WsTransportClientBuilder;
use jsonrpsee_core::client::{BatchResponse, Client, ClientT, Error, IdKind, Subscription, SubscriptionClientT};
use jsonrpsee_core::params::BatchRequestBuilder;
use jsonrpsee_core::rpc_params;
use serde_json::{Value, json};

use crate::cli::PLACEHOLDER;
use crate::rt;
use crate::srv::model::{Want, handler_model};
use crate::srv::stream::Frag;
use crate::srv::world::{self, Entry, SrvCfg, World};

/// Expected outcome of `method(params)` by the handler model, rendered like the client renders it.
fn expect(method: &str, params: &Value) -> Result<Value, i64> {
	match handler_model(method, Some(params), None) {
		Want::Result(v) => Ok(v),
		Want::Err(c) => Err(c[0]),
		Want::AnyResult | Want::AnyResultOrErr(_) => Ok(Value::Null),
	}
}

fn outcome(r: &Result<Value, Error>) -> Result<Result<Value, i64>, String> {
	match r {
		Ok(v) => Ok(Ok(v.clone())),
		Err(Error::Call(e)) => Ok(Err(e.code() as i64)),
		Err(e) => Err(format!("{e:?}")),
	}
}

pub fn scenario_c03() -> impl std::future::Future<Output = ()> + Send {
	scenario("C03")
}
pub fn scenario_c12() -> impl std::future::Future<Output = ()> + Send {
	scenario("C12")
}
pub fn scenario_c09() -> impl std::future::Future<Output = ()> + Send {
	scenario("C09")
}

async fn scenario(prop: &'static str) {
	rt::expect_panic_marker(world::PANIC_MARKER);
	let entry = *rt::pick("entry", &[Entry::Default, Entry::Tower, Entry::LowLevel]);
	let frag = match rt::draw("frag", 4) {
		0 => Frag::default(),
		1 => Frag { short: true, latency_ms: 0, cap: 0 },
		2 => Frag { short: true, latency_ms: 4, cap: 0 },
		_ => Frag { short: true, latency_ms: 2, cap: *rt::pick("cap", &[64usize, 256]) },
	};
	let buf_cap = *rt::pick("buf_cap", &[1024u32, 1, 4]);
	let id_str = rt::chance("id_kind", 1, 3);
	let max_conc = *rt::pick("max_conc", &[256usize, 1, 2]);
	let n_tasks = rt::draw_range("n_tasks", 1, 4);
	let fault = prop == "C09" && !rt::chance("nofault", 1, 8);
	rt::event("plan", format!("full-stack prop={prop} entry={entry:?} frag={frag:?} buf_cap={buf_cap} id_str={id_str} max_conc={max_conc} tasks={n_tasks} fault={fault}"));
	let mut world = World::new(SrvCfg { entry, frag, buf_cap, auto_sub: true, ..Default::default() });
	world.start().await;
	let (end, ctl) = world.connect("client0");
	let (tx, rx) = match WsTransportClientBuilder::default().build_with_stream("ws://sim.invalid:80".parse().unwrap(), end).await {
		Ok(x) => x,
		Err(e) => {
			rt::violate(prop, "full-stack-handshake", "ws", format!("the library's client could not connect to the library's server: {e:?}"));
			return;
		}
	};
	// client pings: real ping / pong frames between the two library ends, ticking inside the client's select loops
	let (ping, req_timeout) = crate::cli::draw_ping(20);
	let ping_mode = ping.is_some();
	let mut builder = Client::builder();
	if let Some(p) = ping {
		builder = builder.enable_ws_ping(p);
	}
	let client: Arc<Client> = Arc::new(
		builder
			.max_concurrent_requests(max_conc)
			.id_format(if id_str { IdKind::String } else { IdKind::Number })
			.request_timeout(req_timeout)
			.build_with_tokio(tx, rx),
	);
	let nonce = Arc::new(AtomicU64::new(1));
	let results: Arc<Mutex<Vec<(String, u64, tokio::time::Instant)>>> = Arc::default(); // (error text, done stamp, invoked at)
	let mut hs = Vec::new();
	for ti in 0..n_tasks {
		let (client, nonce, results) = (client.clone(), nonce.clone(), results.clone());
		hs.push(rt::spawn("front", async move {
			for _ in 0..rt::draw_range("n_ops", 1, 3) {
				let n = nonce.fetch_add(1, Ordering::Relaxed);
				let t0 = tokio::time::Instant::now();
				match rt::draw("op", 10) {
					0..=5 => {
						let method = *rt::pick("method", &["echo", "aecho", "becho", "add", "fail", "nope", "seqadd", "bpanic"]);
						let params = if method == "add" || method == "seqadd" { json!([n % 1000, 7]) } else { json!([n, "x"]) };
						let r: Result<Value, Error> = client.request(method, rpc_params![params[0].clone(), params[1].clone()]).await;
						let st = rt::event("op-done", format!("t{ti} {method} {params} -> {r:?}"));
						match outcome(&r) {
							Ok(got) => {
								let want = expect(method, &params);
								if got != want && prop != "C12" {
									rt::violate(prop, "full-stack-wrong-answer", method.to_string(), format!("{method}({params}) returned {got:?} end to end, the handler model says {want:?}"));
								}
							}
							Err(e) => results.lock().unwrap().push((e, st, t0)),
						}
					}
					6 | 7 => {
						let k = rt::draw_range("batch_n", 1, 5);
						let mut b = BatchRequestBuilder::new();
						let mut wants = Vec::new();
						for j in 0..k {
							let method = *rt::pick("bmethod", &["echo", "aecho", "add", "fail", "nope"]);
							let params = if method == "add" { json!([j, n % 100]) } else { json!([n * 10 + j as u64, "b"]) };
							b.insert(method, rpc_params![params[0].clone(), params[1].clone()]).unwrap();
							wants.push((method, params.clone(), expect(method, &params)));
						}
						let r: Result<BatchResponse<Value>, Error> = client.batch_request(b).await;
						let st = rt::event("op-done", format!("t{ti} batch {wants:?} -> {r:?}"));
						match r {
							Ok(br) => {
								let (s, f) = (br.num_successful_calls(), br.num_failed_calls());
								let got: Vec<Result<Value, i64>> = br.into_iter().map(|e| e.map_err(|o| o.code() as i64)).collect();
								let want: Vec<Result<Value, i64>> = wants.iter().map(|w| w.2.clone()).collect();
								if got != want {
									rt::violate(prop, "full-stack-batch-not-positional", "ws", format!("batch {wants:?} returned {got:?}"));
								}
								if s != got.iter().filter(|g| g.is_ok()).count() || f != got.iter().filter(|g| g.is_err()).count() {
									rt::violate(prop, "full-stack-batch-counts", "ws", format!("counts {s}/{f} for {got:?}"));
								}
								rt::probe("nontrivial");
							}
							Err(e) => results.lock().unwrap().push((format!("{e:?}"), st, t0)),
						}
					}
					_ => {
						let r: Result<Subscription<Value>, Error> = client.subscribe("sub", rpc_params![n], "unsub").await;
						let st = rt::event("op-done", format!("t{ti} subscribe {n} ok={}", r.is_ok()));
						match r {
							Ok(mut sub) => {
								// the handler sends the subscribe param back as its only item
								match tokio::time::timeout(Duration::from_secs(5), sub.next()).await {
									Ok(Some(Ok(v))) if v == json!(n) => {}
									Ok(None) => results.lock().unwrap().push(("stream ended".into(), st, t0)),
									other => {
										if prop != "C12" {
											rt::violate(prop, "full-stack-wrong-notification", "sub", format!("subscription {n} yielded {other:?} instead of {n}"));
										}
									}
								}
								if rt::chance("explicit_unsub", 1, 2) {
									let _ = tokio::time::timeout(Duration::from_secs(5), sub.unsubscribe()).await;
								}
							}
							Err(e) => results.lock().unwrap().push((format!("{e:?}"), st, t0)),
						}
					}
				}
			}
		}));
	}
	// the fault: the connection is reset at a drawn moment
	let mut fault_at = None;
	if fault {
		rt::yield_n(rt::draw("fault_after_yields", 40)).await;
		if rt::chance("fault_after_ms", 1, 2) {
			tokio::time::sleep(Duration::from_millis(rt::draw_range("ms", 1, 30) as u64)).await;
		}
		fault_at = Some((rt::event("fault-connection-reset", ""), tokio::time::Instant::now()));
		ctl.reset();
	}
	for h in hs {
		let _ = h.await;
	}
	if ping_mode {
		// the ping timers never end: a span longer than the request timeout stands in for quiescence
		tokio::time::sleep(if fault { req_timeout + Duration::from_secs(2) } else { Duration::from_secs(2) }).await;
	} else {
		rt::quiesce().await;
	}
	// ---------------- oracle ----------------
	let errs = results.lock().unwrap().clone();
	match fault_at {
		None => {
			for (e, _, _) in &errs {
				rt::violate(prop, "full-stack-op-failed", "no-fault", format!("an operation failed although no fault was injected: {e}"));
			}
			if !client.is_connected() {
				rt::violate(prop, "full-stack-disconnected", "no-fault", "the client lost its connection although no fault was injected");
			}
		}
		Some((_, t_fault)) => {
			for (e, _, t0) in &errs {
				if e.contains(PLACEHOLDER) {
					rt::violate(prop, "placeholder-cause", "full-stack", format!("an operation failed with the placeholder: {e}"));
				} else if e.contains("RequestTimeout") && t_fault.duration_since(*t0) < req_timeout {
					rt::violate(prop, "stalled-until-timeout", "full-stack", "an operation was left pending until its request timeout after the connection was reset");
				} else if e.contains("ServiceDisconnect") {
					rt::violate(prop, "internal-error-leaked", "full-stack", e.clone());
				}
			}
			if client.is_connected() {
				rt::violate(prop, "still-connected", "full-stack", "is_connected() is true at quiescence after the connection was reset");
			} else {
				match tokio::time::timeout(Duration::from_secs(1), client.on_disconnect()).await {
					Ok(e) if format!("{e:?}").contains(PLACEHOLDER) => rt::violate(prop, "placeholder-cause", "full-stack:on_disconnect", format!("{e:?}")),
					Ok(_) => {}
					Err(_) => rt::violate(prop, "on-disconnect-hangs", "full-stack", "on_disconnect() does not resolve"),
				}
			}
			if !errs.is_empty() {
				rt::probe("nontrivial");
			}
			// the server side of the connection must go away too (its slot and its subscriptions with it)
			if ctl.server_dropped().is_none() {
				rt::violate(prop, "server-kept-reset-connection", "full-stack", "the server side of a reset connection was never dropped");
			}
		}
	}
	if prop == "C03" && fault_at.is_none() {
		rt::probe("nontrivial");
	}
	drop(client);
	world.drop_stop_handle();
}

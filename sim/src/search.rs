//! Seeded search over simulated runs, fault-position sweeps, tape minimisation, replay files, known findings,
//! evidence.

use std::collections::{BTreeMap, BTreeSet};
use std::future::Future;
use std::path::{Path, PathBuf};
use std::pin::Pin;
use std::sync::Mutex;
use std::sync::atomic::{AtomicBool, AtomicU64, Ordering};
use std::time::Instant;

use serde_json::{Value, json};

use crate::rt::{self, End, RunCfg, RunOut, Violation};

pub type ScenFut = Pin<Box<dyn Future<Output = ()> + Send + 'static>>;

#[derive(Clone)]
pub struct Scen {
	pub name: &'static str,
	pub f: fn() -> ScenFut,
	/// Share of the tier's run budget (relative weight).
	pub weight: u32,
	/// Fault-position sweep: name of the run parameter that carries the fault position, and the probe that
	/// counts the seam events of a base run.
	pub sweep: Option<Sweep>,
	pub max_steps: u64,
}

/// Scenarios in which every fourth run of the seeded search carries the run parameter `preempt` (hook H8).
pub const PREEMPT_SCENS: &[&str] = &["srv_subs", "srv_subs_book"];
/// Scenarios in which every eighth run carries the run parameter `bigmsg` (long multi-byte poison messages).
pub const BIGMSG_SCENS: &[&str] = &["cli_faults"];

#[derive(Clone)]
pub struct Sweep {
	pub param: &'static str,
	pub count_probe: &'static str,
	/// Additional parameter values (fault kinds) to cross with the position.
	pub kinds: u32,
	pub quick_bases: u64,
	pub thorough_bases: u64,
}

pub struct Check {
	pub prop: &'static str,
	pub level: &'static str,
	pub scens: Vec<Scen>,
	pub quick_runs: u64,
	pub thorough_runs: u64,
	pub rule: &'static str,
	pub lib_panic_is_violation: bool,
	pub stuck_is_violation: bool,
	pub assumptions: Vec<&'static str>,
	pub real: &'static str,
	pub stub: &'static str,
}

pub fn verif_dir() -> PathBuf {
	std::env::var("VERIF_DIR").map(PathBuf::from).unwrap_or_else(|_| PathBuf::from("/verif"))
}

fn mix(a: u64, b: u64, c: u64) -> u64 {
	let mut z = a.wrapping_mul(0x9E3779B97F4A7C15) ^ b.wrapping_mul(0xC2B2AE3D27D4EB4F) ^ c.wrapping_mul(0x165667B19E3779F9);
	z = (z ^ (z >> 30)).wrapping_mul(0xBF58476D1CE4E5B9);
	z = (z ^ (z >> 27)).wrapping_mul(0x94D049BB133111EB);
	z ^ (z >> 31)
}

pub fn run_scen(scen: &Scen, seed: u64, tape: Option<Vec<u32>>, tape_then_random: bool, params: &BTreeMap<String, u64>, keep_log: bool) -> RunOut {
	let cfg = RunCfg { seed, tape, tape_then_random, keep_log, max_steps: scen.max_steps, params: params.clone() };
	let f = scen.f;
	rt::run(&cfg, move || f())
}

/// All violations of a run, including policy-derived ones (panics, stuck).
pub fn violations_of(check: &Check, out: &RunOut) -> Vec<Violation> {
	let mut v = out.violations.clone();
	for (who, msg) in &out.panics {
		let in_harness = msg.contains("/verif/") || msg.contains("src/cli/") || msg.contains("src/srv/") || msg.contains("src/rt.rs");
		if !in_harness && check.lib_panic_is_violation {
			v.push(Violation { prop: check.prop, rule: "panic".into(), sig: panic_sig(msg), msg: format!("library task {who} panicked: {msg}"), stamp: 0 });
		}
	}
	if out.end == End::Stuck && check.stuck_is_violation {
		v.push(Violation { prop: check.prop, rule: "hang".into(), sig: "stuck".into(), msg: "nothing runnable and no timer pending, but the scenario has not finished".into(), stamp: 0 });
	}
	v
}

fn panic_sig(msg: &str) -> String {
	// location is the discriminating part
	msg.rsplit(" @ ").next().unwrap_or(msg).to_string()
}

pub fn harness_panics(out: &RunOut) -> Vec<String> {
	out.panics
		.iter()
		.filter(|(_, msg)| msg.contains("/verif/") || msg.contains("src/cli/") || msg.contains("src/srv/") || msg.contains("src/rt.rs") || msg.contains("src/search.rs"))
		.map(|(w, m)| format!("{w}: {m}"))
		.collect()
}

// ------------------------------------------------------------------------------------------------
// known findings

#[derive(Debug, Clone)]
pub struct Known {
	pub property: String,
	pub rule: String,
	pub sig: String,
	pub what: String,
	pub replay: Option<String>,
}

pub fn load_known() -> Vec<Known> {
	let p = verif_dir().join("known_findings.json");
	let Ok(s) = std::fs::read_to_string(&p) else { return vec![] };
	let v: Value = serde_json::from_str(&s).expect("known_findings.json must be valid JSON");
	v["findings"]
		.as_array()
		.map(|a| {
			a.iter()
				.map(|f| Known {
					property: f["property"].as_str().unwrap_or("").into(),
					rule: f["rule"].as_str().unwrap_or("").into(),
					sig: f["sig"].as_str().unwrap_or("").into(),
					what: f["what"].as_str().unwrap_or("").into(),
					replay: f["replay"].as_str().map(|s| s.to_string()),
				})
				.collect()
		})
		.unwrap_or_default()
}

fn matches_known(k: &Known, v: &Violation) -> bool {
	k.property == v.prop && k.rule == v.rule && k.sig == v.sig
}

// ------------------------------------------------------------------------------------------------
// replay files

pub fn write_replay(dir: &Path, check: &Check, scen: &Scen, seed: u64, params: &BTreeMap<String, u64>, tape: &[u32], v: &Violation, log: &[String], note: &str) -> PathBuf {
	std::fs::create_dir_all(dir).ok();
	let safe = |s: &str| s.chars().map(|c| if c.is_ascii_alphanumeric() || c == '-' { c } else { '_' }).take(40).collect::<String>();
	let path = dir.join(format!("{}-{}-{}-{}.json", check.prop, safe(&v.rule), safe(&v.sig), seed));
	let j = json!({
		"property": check.prop,
		"scenario": scen.name,
		"seed": seed,
		"params": params,
		"tape": tape,
		"expect": {"rule": v.rule, "sig": v.sig},
		"message": v.msg,
		"note": note,
		"log": log,
	});
	std::fs::write(&path, serde_json::to_string_pretty(&j).unwrap()).expect("write replay");
	path
}

pub struct ReplayFile {
	pub property: String,
	pub scenario: String,
	pub seed: u64,
	pub params: BTreeMap<String, u64>,
	pub tape: Vec<u32>,
	pub rule: String,
	pub sig: String,
}

pub fn read_replay(path: &Path) -> Result<ReplayFile, String> {
	let s = std::fs::read_to_string(path).map_err(|e| format!("{path:?}: {e}"))?;
	let v: Value = serde_json::from_str(&s).map_err(|e| format!("{path:?}: {e}"))?;
	Ok(ReplayFile {
		property: v["property"].as_str().ok_or("property")?.into(),
		scenario: v["scenario"].as_str().ok_or("scenario")?.into(),
		seed: v["seed"].as_u64().unwrap_or(0),
		params: v["params"].as_object().map(|o| o.iter().map(|(k, v)| (k.clone(), v.as_u64().unwrap_or(0))).collect()).unwrap_or_default(),
		tape: v["tape"].as_array().ok_or("tape")?.iter().map(|x| x.as_u64().unwrap_or(0) as u32).collect(),
		rule: v["expect"]["rule"].as_str().unwrap_or("").into(),
		sig: v["expect"]["sig"].as_str().unwrap_or("").into(),
	})
}

/// Replay a file; returns the matching violation if it reproduces.
pub fn replay(check: &Check, rf: &ReplayFile, keep_log: bool) -> (RunOut, Option<Violation>) {
	let scen = check.scens.iter().find(|s| s.name == rf.scenario).unwrap_or_else(|| panic!("unknown scenario {}", rf.scenario));
	let out = run_scen(scen, rf.seed, Some(rf.tape.clone()), false, &rf.params, keep_log);
	let v = violations_of(check, &out).into_iter().find(|v| v.rule == rf.rule && v.sig == rf.sig);
	(out, v)
}

// ------------------------------------------------------------------------------------------------
// shrinking

pub fn shrink(check: &Check, scen: &Scen, seed: u64, params: &BTreeMap<String, u64>, tape: Vec<u32>, target: &Violation) -> (Vec<u32>, u64) {
	let t0 = Instant::now();
	let mut execs = 0u64;
	let mut best = tape;
	let budget_execs = 3000u64;
	let budget_s = 45.0;
	let test = |cand: &Vec<u32>, execs: &mut u64| -> Option<Vec<u32>> {
		*execs += 1;
		let out = run_scen(scen, seed, Some(cand.clone()), false, params, false);
		if violations_of(check, &out).iter().any(|v| v.rule == target.rule && v.sig == target.sig) {
			// canonical form: the tape actually consumed, with trailing zeros removed
			let mut t = out.tape.clone();
			while t.last() == Some(&0) {
				t.pop();
			}
			Some(t)
		} else {
			None
		}
	};
	// normalise
	if let Some(t) = test(&best, &mut execs) {
		if t.len() <= best.len() {
			best = t;
		}
	} else {
		return (best, execs); // does not reproduce from its own tape: leave as is
	}
	let over = |execs: u64| execs >= budget_execs || t0.elapsed().as_secs_f64() > budget_s;
	loop {
		let mut progress = false;
		// 1. truncate
		let mut lo = 0usize;
		let mut hi = best.len();
		while lo < hi && !over(execs) {
			let mid = (lo + hi) / 2;
			let cand = best[..mid].to_vec();
			if let Some(t) = test(&cand, &mut execs) {
				if t.len() < best.len() {
					best = t;
					progress = true;
				}
				hi = mid.min(best.len());
			} else {
				lo = mid + 1;
			}
		}
		// 2. delete blocks
		for bs in [16usize, 8, 4, 2, 1] {
			let mut i = 0;
			while i + bs <= best.len() && !over(execs) {
				let mut cand = best.clone();
				cand.drain(i..i + bs);
				if let Some(t) = test(&cand, &mut execs) {
					if t.len() < best.len() || t < best {
						best = t;
						progress = true;
						continue;
					}
				}
				i += bs;
			}
		}
		// 3. zero / reduce values
		let mut i = 0;
		while i < best.len() && !over(execs) {
			if best[i] != 0 {
				for nv in [0, best[i] / 2, best[i] - 1] {
					if nv >= best[i] {
						continue;
					}
					let mut cand = best.clone();
					cand[i] = nv;
					if let Some(t) = test(&cand, &mut execs) {
						if t.len() < best.len() || (t.len() == best.len() && t < best) {
							best = t;
							progress = true;
							break;
						}
					}
				}
			}
			i += 1;
		}
		if !progress || over(execs) {
			break;
		}
	}
	(best, execs)
}

// ------------------------------------------------------------------------------------------------
// the check driver

struct Found {
	scen_idx: usize,
	seed: u64,
	params: BTreeMap<String, u64>,
	tape: Vec<u32>,
	v: Violation,
}

#[derive(Default)]
struct Agg {
	runs: u64,
	sweep_runs: u64,
	sweep_bases: u64,
	steps: u64,
	vtime_ms: u64,
	nontrivial: u64,
	fps: BTreeSet<u64>,
	probes: BTreeMap<String, u64>,
	strategies: BTreeMap<String, u64>,
	ends: BTreeMap<String, u64>,
	per_scen: BTreeMap<String, u64>,
	found: Vec<Found>,
	found_keys: BTreeSet<(String, String)>,
	known_suppressed: BTreeMap<String, u64>,
	known_first: BTreeMap<String, Found>,
	inconclusive_seeds: Vec<String>,
	lib_panics: BTreeMap<String, u64>,
	harness_errors: Vec<String>,
	samples: Vec<Value>,
	nondet: u64,
	rechecked: u64,
	max_steps_seen: u64,
}

fn absorb(check: &Check, scen_idx: usize, seed: u64, params: &BTreeMap<String, u64>, out: &RunOut, agg: &Mutex<Agg>, known: &[Known], is_sweep: bool) {
	let vs = violations_of(check, out);
	let mut a = agg.lock().unwrap();
	if is_sweep {
		a.sweep_runs += 1;
	} else {
		a.runs += 1;
	}
	a.steps += out.steps;
	a.vtime_ms += out.vtime_ms;
	a.max_steps_seen = a.max_steps_seen.max(out.steps);
	*a.per_scen.entry(check.scens[scen_idx].name.to_string()).or_insert(0) += 1;
	*a.strategies.entry(format!("{:?}", out.strategy).split('(').next().unwrap().to_string()).or_insert(0) += 1;
	*a.ends.entry(format!("{:?}", out.end)).or_insert(0) += 1;
	if out.end == End::StepLimit && a.inconclusive_seeds.len() < 3 {
		a.inconclusive_seeds.push(format!("{} seed={seed} params={params:?}", check.scens[scen_idx].name));
	}
	for (k, v) in &out.probes {
		*a.probes.entry(k.to_string()).or_insert(0) += v;
	}
	if out.probes.get("nontrivial").copied().unwrap_or(0) > 0 {
		a.nontrivial += 1;
		// (memory bound for very long thorough runs: beyond 3M distinct fingerprints the count is a lower bound)
		if a.fps.len() < 3_000_000 {
			a.fps.insert(out.sched_fp);
		}
	}
	for (who, msg) in &out.panics {
		*a.lib_panics.entry(format!("{who}: {}", panic_sig(msg))).or_insert(0) += 1;
	}
	for h in harness_panics(out) {
		if a.harness_errors.len() < 5 {
			a.harness_errors.push(format!("harness panic (scenario {} seed {seed}): {h}", check.scens[scen_idx].name));
		}
	}
	if out.end == End::Stuck && !check.stuck_is_violation && a.harness_errors.len() < 5 {
		a.harness_errors.push(format!("run stuck (scenario {} seed {seed} params {params:?})", check.scens[scen_idx].name));
	}
	for v in vs {
		if let Some(k) = known.iter().find(|k| matches_known(k, &v)) {
			let key = format!("{}/{}", k.rule, k.sig);
			*a.known_suppressed.entry(key.clone()).or_insert(0) += 1;
			if !a.known_first.contains_key(&key) {
				a.known_first.insert(key, Found { scen_idx, seed, params: params.clone(), tape: out.tape.clone(), v: v.clone() });
			}
			continue;
		}
		let key = (v.rule.clone(), v.sig.clone());
		if a.found_keys.contains(&key) || a.found.len() >= 6 {
			continue;
		}
		a.found_keys.insert(key);
		a.found.push(Found { scen_idx, seed, params: params.clone(), tape: out.tape.clone(), v });
	}
	if out.keep_log_sample && a.samples.len() < 4 {
		let lines: Vec<&String> = out.log.iter().filter(|l| !l.contains("] run ")).take(60).collect();
		a.samples.push(json!({"scenario": check.scens[scen_idx].name, "seed": seed, "params": params, "strategy": format!("{:?}", out.strategy), "steps": out.steps, "events": lines}));
	}
}

pub fn run_check(check: &Check, tier: &str) -> i32 {
	let t0 = Instant::now();
	let base_seed: u64 = std::env::var("VERIF_SEED").ok().and_then(|s| s.parse().ok()).unwrap_or(1);
	let threads: usize = std::env::var("VERIF_THREADS").ok().and_then(|s| s.parse().ok()).unwrap_or(16);
	let total_runs: u64 = std::env::var("VERIF_RUNS").ok().and_then(|s| s.parse().ok()).unwrap_or(if tier == "thorough" { check.thorough_runs } else { check.quick_runs });
	let wall_cap_s: f64 = std::env::var("VERIF_WALL_CAP").ok().and_then(|s| s.parse().ok()).unwrap_or(if tier == "thorough" { 3000.0 } else { 240.0 });
	let known: Vec<Known> = load_known().into_iter().filter(|k| k.property == check.prop).collect();
	let replay_dir = verif_dir().join("replays");
	let mut exit = 0;

	// 0. known findings and regressions first
	let mut known_lines = Vec::new();
	let mut known_pending: Vec<&Known> = Vec::new();
	let refresh = std::env::var("VERIF_REFRESH_FINDINGS").is_ok();
	for k in &known {
		let still = match &k.replay {
			Some(r) => match read_replay(&verif_dir().join(r)) {
				Ok(rf) => replay(check, &rf, false).1.is_some(),
				Err(e) => {
					eprintln!("HARNESS-ERROR: cannot read known-finding replay: {e}");
					return 2;
				}
			},
			None => true,
		};
		if still {
			let line = format!("KNOWN-FINDING: property={} {}", check.prop, k.what);
			println!("{line}");
			known_lines.push(line);
		} else {
			// the tape may have gone stale with a change of the scenario: decided after the search
			known_pending.push(k);
		}
	}
	let mut regressions_run = 0;
	let reg_dir = verif_dir().join("regressions");
	if let Ok(rd) = std::fs::read_dir(&reg_dir) {
		let mut files: Vec<_> = rd.filter_map(|e| e.ok()).map(|e| e.path()).filter(|p| p.file_name().and_then(|n| n.to_str()).is_some_and(|n| n.starts_with(check.prop) && n.ends_with(".json"))).collect();
		files.sort();
		for f in files {
			match read_replay(&f) {
				Ok(rf) => {
					regressions_run += 1;
					let (out, _) = replay(check, &rf, false);
					// any violation of this property that is not a listed finding counts
					for v in violations_of(check, &out) {
						if !known.iter().any(|k| matches_known(k, &v)) {
							println!("VIOLATION property={} replay={} (regression file reproduces: {} [{}] {})", check.prop, f.display(), v.rule, v.sig, v.msg);
							exit = 1;
							break;
						}
					}
				}
				Err(e) => {
					eprintln!("HARNESS-ERROR: {e}");
					return 2;
				}
			}
		}
	}

	// 1. seeded search
	let agg = Mutex::new(Agg::default());
	let wsum: u64 = check.scens.iter().map(|s| s.weight as u64).sum::<u64>().max(1);
	// work items: (scen idx, run idx)
	let mut plan: Vec<(usize, u64)> = Vec::new();
	for (si, s) in check.scens.iter().enumerate() {
		let n = total_runs * s.weight as u64 / wsum;
		for i in 0..n {
			plan.push((si, i));
		}
	}
	let next = AtomicU64::new(0);
	let stop = AtomicBool::new(false);
	let empty = BTreeMap::new();
	std::thread::scope(|sc| {
		for _ in 0..threads {
			sc.spawn(|| {
				loop {
					let i = next.fetch_add(1, Ordering::Relaxed) as usize;
					if i >= plan.len() || stop.load(Ordering::Relaxed) {
						break;
					}
					if t0.elapsed().as_secs_f64() > wall_cap_s {
						stop.store(true, Ordering::Relaxed);
						break;
					}
					let (si, ri) = plan[i];
					let scen = &check.scens[si];
					let seed = mix(base_seed, si as u64 + 1, ri);
					let keep = ri < 2;
					// every fourth run of the scenarios that have preemption points in their code paths (hook H8) is
					// a run with preemptions
					let preempt_params;
					let empty = if PREEMPT_SCENS.contains(&scen.name) && ri % 4 == 3 {
						preempt_params = BTreeMap::from([("preempt".to_string(), 1u64)]);
						&preempt_params
					} else if BIGMSG_SCENS.contains(&scen.name) && ri % 8 == 5 {
						preempt_params = BTreeMap::from([("bigmsg".to_string(), 1u64)]);
						&preempt_params
					} else {
						&empty
					};
					let mut out = run_scen(scen, seed, None, false, empty, keep);
					out.keep_log_sample = keep;
					if ri % 97 == 3 {
						let again = run_scen(scen, seed, None, false, empty, false);
						let mut a = agg.lock().unwrap();
						a.rechecked += 1;
						if again.hash != out.hash {
							a.nondet += 1;
							a.harness_errors.push(format!("nondeterminism: scenario {} seed {seed}: event-log hash differs between two executions", scen.name));
						}
					}
					absorb(check, si, seed, empty, &out, &agg, &known, false);
				}
			});
		}
	});

	// 2. fault-position sweeps
	for (si, scen) in check.scens.iter().enumerate() {
		let Some(sw) = &scen.sweep else { continue };
		let bases = std::env::var("VERIF_SWEEP_BASES").ok().and_then(|s| s.parse().ok()).unwrap_or(if tier == "thorough" { sw.thorough_bases } else { sw.quick_bases });
		// items: (base idx) processed in parallel; each base expands into positions x kinds
		let nextb = AtomicU64::new(0);
		std::thread::scope(|sc| {
			for _ in 0..threads {
				sc.spawn(|| {
					loop {
						let b = nextb.fetch_add(1, Ordering::Relaxed);
						if b >= bases || t0.elapsed().as_secs_f64() > wall_cap_s {
							break;
						}
						let seed = mix(base_seed ^ 0x5EED, si as u64 + 1, b);
						let mut params = BTreeMap::new();
						params.insert("sweep_base".to_string(), 1);
						let base = run_scen(scen, seed, None, false, &params, false);
						let n = base.probes.get(sw.count_probe).copied().unwrap_or(0);
						{
							let mut a = agg.lock().unwrap();
							a.sweep_bases += 1;
						}
						absorb(check, si, seed, &params, &base, &agg, &known, true);
						for kind in 0..sw.kinds.max(1) {
							for pos in 1..=n {
								let mut p = BTreeMap::new();
								p.insert(sw.param.to_string(), pos);
								p.insert("fault_kind".to_string(), kind as u64);
								let out = run_scen(scen, seed, Some(base.tape.clone()), true, &p, false);
								absorb(check, si, seed, &p, &out, &agg, &known, true);
							}
						}
					}
				});
			}
		});
	}

	let mut a = agg.into_inner().unwrap();
	for k in known_pending {
		let key = format!("{}/{}", k.rule, k.sig);
		if a.known_suppressed.get(&key).copied().unwrap_or(0) > 0 {
			let line = format!("KNOWN-FINDING: property={} {}", check.prop, k.what);
			println!("{line}");
			known_lines.push(line);
			println!("note: the replay file of this finding is stale (the scenario changed); it was re-observed {} times in this search; refresh it with VERIF_REFRESH_FINDINGS=1", a.known_suppressed[&key]);
		} else {
			println!("note: listed finding was neither reproduced from its replay file nor observed in this search: {}/{}", k.rule, k.sig);
		}
	}

	// 2b. maintenance: rewrite the replay files of the listed findings from this search
	if refresh {
		for k in &known {
			let key = format!("{}/{}", k.rule, k.sig);
			if let (Some(f), Some(rp)) = (a.known_first.get(&key), &k.replay) {
				let scen = &check.scens[f.scen_idx];
				let (tape, execs) = shrink(check, scen, f.seed, &f.params, f.tape.clone(), &f.v);
				let out = run_scen(scen, f.seed, Some(tape.clone()), false, &f.params, true);
				if let Some(v) = violations_of(check, &out).into_iter().find(|v| v.rule == f.v.rule && v.sig == f.v.sig) {
					let tmp = write_replay(&replay_dir, check, scen, f.seed, &f.params, &tape, &v, &out.log, &format!("known finding; minimised from {} to {} choices in {} executions", f.tape.len(), tape.len(), execs));
					let dest = verif_dir().join(rp);
					std::fs::copy(&tmp, &dest).expect("refresh finding replay");
					println!("refreshed {}", dest.display());
				}
			}
		}
	}

	// 3. report violations: minimise, verify replay, print
	let mut reported = Vec::new();
	let founds = std::mem::take(&mut a.found);
	for f in founds {
		let scen = &check.scens[f.scen_idx];
		let (tape, execs) = shrink(check, scen, f.seed, &f.params, f.tape.clone(), &f.v);
		let out = run_scen(scen, f.seed, Some(tape.clone()), false, &f.params, true);
		let v = violations_of(check, &out).into_iter().find(|v| v.rule == f.v.rule && v.sig == f.v.sig);
		let (tape, out, v) = match v {
			Some(v) => (tape, out, v),
			None => {
				// fall back to the unshrunk tape
				let out = run_scen(scen, f.seed, Some(f.tape.clone()), false, &f.params, true);
				match violations_of(check, &out).into_iter().find(|v| v.rule == f.v.rule && v.sig == f.v.sig) {
					Some(v) => (f.tape.clone(), out, v),
					None => {
						a.harness_errors.push(format!("violation {}/{} (scenario {} seed {}) does not reproduce from its own tape", f.v.rule, f.v.sig, scen.name, f.seed));
						continue;
					}
				}
			}
		};
		let path = write_replay(&replay_dir, check, scen, f.seed, &f.params, &tape, &v, &out.log, &format!("minimised from {} to {} choices in {} executions", f.tape.len(), tape.len(), execs));
		println!("VIOLATION property={} replay={}", check.prop, path.display());
		println!("  rule={} sig={} scenario={} seed={} tape_len={}", v.rule, v.sig, scen.name, f.seed, tape.len());
		println!("  {}", v.msg);
		reported.push(json!({"rule": v.rule, "sig": v.sig, "msg": v.msg, "replay": path.display().to_string()}));
		exit = 1;
	}

	// 4. evidence
	let wall = t0.elapsed().as_secs_f64();
	let evals = a.runs + a.sweep_runs;
	let inconclusive = a.ends.get("StepLimit").copied().unwrap_or(0);
	let ev = json!({
		"property_id": check.prop,
		"tier": tier,
		"seed": base_seed,
		"level": check.level,
		"wall_s": wall,
		"violations": reported.len(),
		"coverage": {
			"evaluations": evals,
			"distinct_nontrivial": a.fps.len(),
			"rule": check.rule,
			"samples": a.samples,
			"search_runs": a.runs,
			"sweep_base_runs": a.sweep_bases,
			"sweep_runs": a.sweep_runs,
			"nontrivial_runs": a.nontrivial,
			"runs_per_hour": if wall > 0.0 { (evals as f64 / wall * 3600.0) as u64 } else { 0 },
			"scheduler_steps_total": a.steps,
			"max_steps_in_a_run": a.max_steps_seen,
			"simulated_time_ms_total": a.vtime_ms,
			"runs_per_scenario": a.per_scen,
			"runs_per_strategy": a.strategies,
			"run_endings": a.ends,
			"inconclusive_runs": inconclusive,
			"inconclusive_examples": a.inconclusive_seeds,
			"probes_and_fault_counts": a.probes,
			"library_panics_seen": a.lib_panics,
			"determinism_rechecks": a.rechecked,
			"determinism_mismatches": a.nondet,
			"known_findings_reported": known_lines,
			"known_findings_suppressed_in_search": a.known_suppressed,
			"regression_files_replayed": regressions_run,
			"violations_reported": reported,
			"components_real": check.real,
			"components_stub": check.stub,
			"distinct_measure": "distinct schedule fingerprints (hash of the sequence of task-class picks and seam tags) among runs that are non-trivial by `rule`",
		},
		"assumptions": check.assumptions,
	});
	let evdir = verif_dir().join("evidence");
	std::fs::create_dir_all(&evdir).ok();
	std::fs::write(evdir.join(format!("{}.json", check.prop)), serde_json::to_string_pretty(&ev).unwrap()).expect("write evidence");

	println!(
		"{} {}: {} runs ({} search + {} sweep over {} bases) in {:.1}s, {} non-trivial, {} distinct schedules, {} inconclusive, violations={}",
		check.prop, tier, evals, a.runs, a.sweep_runs, a.sweep_bases, wall, a.nontrivial, a.fps.len(), inconclusive, reported.len()
	);
	if !a.harness_errors.is_empty() {
		for e in &a.harness_errors {
			eprintln!("HARNESS-ERROR: {e}");
		}
		// a violation that was reported above reproduces from its own replay file and stands on its own feet (the
		// code under test may, for instance, have started to leak a process-global counter into its replies, which
		// shows both as a violation and as event logs that differ between two executions)
		return if exit == 1 { 1 } else { 2 };
	}
	if evals > 0 && inconclusive * 100 > evals {
		eprintln!("HARNESS-ERROR: {inconclusive} of {evals} runs hit the step limit (> 1 %)");
		return 2;
	}
	exit
}

pub fn run_replay(checks: &[Check], path: &Path) -> i32 {
	let rf = match read_replay(path) {
		Ok(r) => r,
		Err(e) => {
			eprintln!("HARNESS-ERROR: {e}");
			return 2;
		}
	};
	let Some(check) = checks.iter().find(|c| c.prop == rf.property) else {
		eprintln!("HARNESS-ERROR: unknown property {}", rf.property);
		return 2;
	};
	let (out, v) = replay(check, &rf, true);
	for l in &out.log {
		println!("{l}");
	}
	println!("end={:?} steps={} hash={:016x}", out.end, out.steps, out.hash);
	match v {
		Some(v) => {
			println!("REPRODUCED {} [{}] {}", v.rule, v.sig, v.msg);
			println!("VIOLATION property={} replay={}", check.prop, path.display());
			1
		}
		None => {
			let others = violations_of(check, &out);
			if others.is_empty() {
				println!("NOT-REPRODUCED: the run shows no violation");
			} else {
				for o in others {
					println!("OTHER-VIOLATION {} [{}] {}", o.rule, o.sig, o.msg);
				}
			}
			0
		}
	}
}

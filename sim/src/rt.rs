//! simrt — a seeded scheduler on top of a tamed tokio current-thread runtime.
//!
//! * every spawned task (library tasks through hook H2, harness tasks through [`spawn`]) is wrapped in a
//!   *gate*: a poll without a grant parks the task; the driver (the `block_on` root future) picks one
//!   parked task at a time from the choice tape / PRNG and grants it exactly one poll;
//! * the tokio clock is paused: virtual time only jumps when nothing is runnable;
//! * every decision is a [`draw`]: recorded on the tape in search mode, read from it in replay mode.

use std::cell::RefCell;
use std::collections::BTreeMap;
use std::future::Future;
use std::pin::Pin;
use std::task::{Context, Poll, Waker};
use std::time::Duration;

use jsonrpsee_core::verif::{self, TaskGate};

/// One violation found by an oracle.
#[derive(Debug, Clone)]
pub struct Violation {
	pub prop: &'static str,
	/// Oracle rule that fired.
	pub rule: String,
	/// Discriminating feature of the failing case (used for known-finding matching and for shrinking).
	pub sig: String,
	pub msg: String,
	pub stamp: u64,
}

#[derive(Debug, Clone, Copy, PartialEq, Eq)]
pub enum Strategy {
	Fifo,
	Uniform,
	Pct,
	Starve(u32),
}

#[derive(Debug, Clone, Copy, PartialEq, Eq)]
pub enum End {
	/// Main finished and nothing is runnable and no timer below the watchdog horizon is pending.
	Quiescent,
	/// Step budget exhausted (inconclusive).
	StepLimit,
	/// Nothing runnable, no timers, but the scenario's main future has not finished.
	Stuck,
}

struct Xo(u64);
impl Xo {
	fn next(&mut self) -> u64 {
		// splitmix64
		self.0 = self.0.wrapping_add(0x9E3779B97F4A7C15);
		let mut z = self.0;
		z = (z ^ (z >> 30)).wrapping_mul(0xBF58476D1CE4E5B9);
		z = (z ^ (z >> 27)).wrapping_mul(0x94D049BB133111EB);
		z ^ (z >> 31)
	}
}

struct TaskInfo {
	name: String,
	class: u32,
	prio: u32,
}

pub struct Sim {
	rng: Xo,
	replay: Option<Vec<u32>>,
	tape_then_random: bool,
	params: BTreeMap<String, u64>,
	pos: usize,
	tape: Vec<u32>,
	// scheduler
	tasks: Vec<TaskInfo>,
	classes: Vec<String>,
	parked: Vec<(u32, Waker)>,
	granted: Option<u32>,
	current: Option<u32>,
	activity: u64,
	driver_waker: Option<Waker>,
	quiesce_waiters: Vec<Waker>,
	quiesce_epoch: u64,
	strategy: Strategy,
	pct_changes: Vec<u64>,
	steps: u64,
	max_steps: u64,
	t0: Option<tokio::time::Instant>,
	vtime_ms: u64,
	// log
	stamp: u64,
	hash: u64,
	sched_fp: u64,
	keep_log: bool,
	finished: bool,
	log: Vec<String>,
	probes: BTreeMap<&'static str, u64>,
	violations: Vec<Violation>,
	panics: Vec<(String, String)>,
	expected_panic_markers: Vec<&'static str>,
}

thread_local! {
	static SIM: RefCell<Option<Sim>> = const { RefCell::new(None) };
}

fn with<R>(f: impl FnOnce(&mut Sim) -> R) -> R {
	SIM.with(|s| f(s.borrow_mut().as_mut().expect("no simulation on this thread")))
}

fn try_with<R>(f: impl FnOnce(&mut Sim) -> R) -> Option<R> {
	SIM.with(|s| match s.try_borrow_mut() {
		Ok(mut g) => g.as_mut().map(f),
		Err(_) => None,
	})
}

fn fnv(h: &mut u64, bytes: &[u8]) {
	for b in bytes {
		*h ^= *b as u64;
		*h = h.wrapping_mul(0x100000001b3);
	}
}

impl Sim {
	fn draw(&mut self, n: u32) -> u32 {
		if n <= 1 {
			return 0;
		}
		let v = match &self.replay {
			Some(t) => {
				let v = match t.get(self.pos) {
					Some(v) => *v % n,
					None if self.tape_then_random => (self.rng.next() % n as u64) as u32,
					None => 0,
				};
				self.pos += 1;
				v
			}
			None => (self.rng.next() % n as u64) as u32,
		};
		self.tape.push(v);
		v
	}

	fn event(&mut self, kind: &str, detail: &str) -> u64 {
		if self.finished {
			// teardown of the runtime (drop order of tasks) is not part of the run
			return self.stamp;
		}
		self.stamp += 1;
		let mut h = self.hash;
		fnv(&mut h, kind.as_bytes());
		fnv(&mut h, b"|");
		fnv(&mut h, detail.as_bytes());
		fnv(&mut h, b"\n");
		self.hash = h;
		if self.keep_log {
			let who = self.current.map(|t| self.tasks[t as usize].name.as_str()).unwrap_or("driver");
			self.log.push(format!("#{} [{}] {} {}", self.stamp, who, kind, detail));
		}
		self.stamp
	}
}

// ------------------------------------------------------------------------------------------------
// public API used by scenarios / seams

/// Draw a value in `0..n` (0 is always the "simplest" choice).
pub fn draw(_site: &'static str, n: u32) -> u32 {
	with(|s| s.draw(n))
}

/// Draw from an inclusive range.
pub fn draw_range(site: &'static str, lo: u32, hi: u32) -> u32 {
	lo + draw(site, hi - lo + 1)
}

/// True with probability num/den. `false` is the simple choice (tape value 0).
pub fn chance(site: &'static str, num: u32, den: u32) -> bool {
	// value 0 must map to false => true iff drawn >= den-num
	draw(site, den) >= den - num
}

pub fn pick<'a, T>(site: &'static str, xs: &'a [T]) -> &'a T {
	&xs[draw(site, xs.len() as u32) as usize]
}

/// Record a stamped event; returns the stamp.
pub fn event(kind: &str, detail: impl AsRef<str>) -> u64 {
	with(|s| s.event(kind, detail.as_ref()))
}

/// Run parameter (fault position of a sweep, fault kind, ...).
pub fn param(name: &str) -> Option<u64> {
	with(|s| s.params.get(name).copied())
}

/// True when no other task is runnable right now: everything else has run as far as it could and waits for a
/// timer, for I/O or for the caller. (The driver lets every woken task reach its gate before it grants a run, so the
/// parked list is the complete set of runnable tasks as long as the caller has not woken anything since its grant.)
pub fn nothing_else_runnable() -> bool {
	with(|s| s.parked.is_empty())
}

/// Current stamp without creating an event.
pub fn now_stamp() -> u64 {
	with(|s| s.stamp)
}

/// Bump a reach probe / fault counter.
pub fn probe(name: &'static str) {
	with(|s| *s.probes.entry(name).or_insert(0) += 1);
}

pub fn probe_n(name: &'static str, n: u64) {
	with(|s| *s.probes.entry(name).or_insert(0) += n);
}

/// Mix something into the schedule fingerprint (task class picks are mixed automatically).
pub fn fingerprint(tag: &str) {
	with(|s| {
		let mut h = s.sched_fp;
		fnv(&mut h, tag.as_bytes());
		fnv(&mut h, b";");
		s.sched_fp = h;
	})
}

pub fn violate(prop: &'static str, rule: &str, sig: impl Into<String>, msg: impl Into<String>) {
	let (sig, msg) = (sig.into(), msg.into());
	with(|s| {
		let stamp = s.event("VIOLATION", &format!("{prop} {rule} [{sig}] {msg}"));
		s.violations.push(Violation { prop, rule: rule.to_string(), sig, msg, stamp });
	})
}

/// Panics whose message contains this marker are provoked on purpose by the harness.
pub fn expect_panic_marker(m: &'static str) {
	with(|s| s.expected_panic_markers.push(m));
}

pub fn vnow() -> tokio::time::Instant {
	tokio::time::Instant::now()
}

/// Spawn a gated harness task.
pub fn spawn<F>(name: &'static str, fut: F) -> tokio::task::JoinHandle<F::Output>
where
	F: Future + Send + 'static,
	F::Output: Send + 'static,
{
	tokio::spawn(verif::wrap(name, 0, fut))
}

/// Yield to the scheduler `k` times (each is a scheduling point).
pub struct YieldN(pub u32);
impl Future for YieldN {
	type Output = ();
	fn poll(mut self: Pin<&mut Self>, cx: &mut Context<'_>) -> Poll<()> {
		if self.0 == 0 {
			Poll::Ready(())
		} else {
			self.0 -= 1;
			cx.waker().wake_by_ref();
			Poll::Pending
		}
	}
}

pub async fn yield_n(k: u32) {
	YieldN(k).await
}

/// Resolves the next time the driver finds the system quiescent (nothing runnable, no timer pending below the
/// watchdog horizon).
pub struct Quiesce {
	epoch: Option<u64>,
}
pub fn quiesce() -> Quiesce {
	Quiesce { epoch: None }
}
impl Future for Quiesce {
	type Output = ();
	fn poll(mut self: Pin<&mut Self>, cx: &mut Context<'_>) -> Poll<()> {
		with(|s| match self.epoch {
			None => {
				self.epoch = Some(s.quiesce_epoch);
				s.quiesce_waiters.push(cx.waker().clone());
				Poll::Pending
			}
			Some(e) if s.quiesce_epoch > e => Poll::Ready(()),
			Some(_) => {
				s.quiesce_waiters.push(cx.waker().clone());
				Poll::Pending
			}
		})
	}
}

// ------------------------------------------------------------------------------------------------
// gate

struct Gate {
	id: u32,
}

impl TaskGate for Gate {
	fn before_poll(&mut self, cx: &mut Context<'_>) -> bool {
		with(|s| {
			s.activity += 1;
			if s.granted == Some(self.id) {
				s.granted = None;
				s.current = Some(self.id);
				true
			} else {
				// `parked` is kept sorted by task id, so that a choice depends only on the *set* of runnable
				// tasks and not on the order in which they were woken (which can depend on the iteration order
				// of a randomly seeded std HashMap inside the library, e.g. when a map of senders is dropped).
				match s.parked.binary_search_by_key(&self.id, |(i, _)| *i) {
					Ok(p) => s.parked[p].1 = cx.waker().clone(),
					Err(p) => s.parked.insert(p, (self.id, cx.waker().clone())),
				}
				if let Some(w) = s.driver_waker.take() {
					w.wake();
				}
				false
			}
		})
	}

	fn after_poll(&mut self, _ready: bool) {
		// may run during unwinding of a panic inside `with` user code? No: `with` is never held across polls.
		let _ = try_with(|s| {
			s.activity += 1;
			s.current = None;
			if let Some(w) = s.driver_waker.take() {
				w.wake();
			}
		});
	}

	fn dropped(&mut self) {
		let _ = try_with(|s| {
			s.parked.retain(|(i, _)| *i != self.id);
			if s.granted == Some(self.id) {
				s.granted = None;
			}
			s.activity += 1;
		});
	}
}

struct WaitActivity;
impl Future for WaitActivity {
	type Output = ();
	fn poll(self: Pin<&mut Self>, cx: &mut Context<'_>) -> Poll<()> {
		with(|s| {
			if !s.parked.is_empty() {
				Poll::Ready(())
			} else {
				s.driver_waker = Some(cx.waker().clone());
				Poll::Pending
			}
		})
	}
}

fn choose(s: &mut Sim) -> usize {
	let n = s.parked.len();
	match s.strategy {
		Strategy::Fifo => 0,
		Strategy::Uniform => s.draw(n as u32) as usize,
		Strategy::Starve(c) => {
			let cand: Vec<usize> =
				(0..n).filter(|&i| s.tasks[s.parked[i].0 as usize].class != c).collect();
			if cand.is_empty() {
				s.draw(n as u32) as usize
			} else {
				cand[s.draw(cand.len() as u32) as usize]
			}
		}
		Strategy::Pct => {
			if s.pct_changes.contains(&s.steps) {
				// lower the priority of the task that would run now
				if let Some(i) = (0..n).max_by_key(|&i| s.tasks[s.parked[i].0 as usize].prio) {
					let t = s.parked[i].0 as usize;
					s.tasks[t].prio = 0;
				}
			}
			(0..n).max_by_key(|&i| (s.tasks[s.parked[i].0 as usize].prio, u32::MAX - s.parked[i].0)).unwrap_or(0)
		}
	}
}

async fn drive<T>(mut main: tokio::task::JoinHandle<T>) -> (End, Option<T>) {
	let mut main_out = None;
	loop {
		// settle: let tokio run everything it considers runnable until no gated poll happens any more.
		loop {
			let a = with(|s| s.activity);
			tokio::task::yield_now().await;
			if with(|s| s.activity) == a {
				break;
			}
		}
		if main_out.is_none() && main.is_finished() {
			match (&mut main).await {
				Ok(v) => main_out = Some(v),
				Err(e) => {
					// main panicked: recorded by the panic hook; treat as finished
					let _ = e;
					return (End::Quiescent, None);
				}
			}
		}
		let n = with(|s| s.parked.len());
		if n == 0 {
			tokio::select! {
				biased;
				_ = WaitActivity => {}
				_ = tokio::time::sleep(Duration::from_secs(86_400)) => {
					// quiescent
					let waiters = with(|s| { s.quiesce_epoch += 1; s.event("quiescent", ""); std::mem::take(&mut s.quiesce_waiters) });
					if !waiters.is_empty() {
						for w in waiters { w.wake(); }
						continue;
					}
					return if main_out.is_some() { (End::Quiescent, main_out) } else { (End::Stuck, None) };
				}
			}
			continue;
		}
		let w = with(|s| {
			let k = choose(s);
			let (id, w) = s.parked.remove(k);
			s.granted = Some(id);
			s.steps += 1;
			let class = s.tasks[id as usize].class;
			let mut h = s.sched_fp;
			fnv(&mut h, &class.to_le_bytes());
			s.sched_fp = h;
			let name = s.tasks[id as usize].name.clone();
			if let Some(t0) = s.t0 {
				s.vtime_ms = (tokio::time::Instant::now() - t0).as_millis() as u64;
			}
			s.event("run", &name);
			w
		});
		w.wake();
		if with(|s| s.steps > s.max_steps) {
			return (End::StepLimit, main_out);
		}
	}
}

// ------------------------------------------------------------------------------------------------
// running one simulation

#[derive(Clone, Debug)]
pub struct RunCfg {
	pub seed: u64,
	pub tape: Option<Vec<u32>>,
	/// After the tape is exhausted continue with the PRNG (instead of zeros).
	pub tape_then_random: bool,
	pub params: BTreeMap<String, u64>,
	pub keep_log: bool,
	pub max_steps: u64,
}

#[derive(Debug, Clone)]
pub struct RunOut {
	pub end: End,
	pub tape: Vec<u32>,
	pub hash: u64,
	pub sched_fp: u64,
	pub steps: u64,
	pub vtime_ms: u64,
	pub log: Vec<String>,
	pub probes: BTreeMap<&'static str, u64>,
	pub violations: Vec<Violation>,
	pub panics: Vec<(String, String)>,
	pub strategy: Strategy,
	pub tasks: usize,
	pub keep_log_sample: bool,
}

pub fn install_panic_hook() {
	static ONCE: std::sync::Once = std::sync::Once::new();
	ONCE.call_once(|| {
		let default = std::panic::take_hook();
		std::panic::set_hook(Box::new(move |info| {
			let msg = if let Some(s) = info.payload().downcast_ref::<&str>() {
				s.to_string()
			} else if let Some(s) = info.payload().downcast_ref::<String>() {
				s.clone()
			} else {
				"<non-string panic>".to_string()
			};
			let loc = info.location().map(|l| format!("{}:{}", l.file(), l.line())).unwrap_or_default();
			let handled = try_with(|s| {
				let who = s.current.map(|t| s.tasks[t as usize].name.clone()).unwrap_or_else(|| "driver".into());
				let full = format!("{msg} @ {loc}");
				s.event("panic", &format!("{who}: {full}"));
				if !s.expected_panic_markers.iter().any(|m| msg.contains(m)) {
					s.panics.push((who, full));
				}
			});
			if handled.is_none() {
				default(info);
			}
		}));
	});
}

/// Run one simulation. `scenario` is called inside the runtime and returns the main future.
pub fn run<F, Fut>(cfg: &RunCfg, scenario: F) -> RunOut
where
	F: FnOnce() -> Fut,
	Fut: Future<Output = ()> + Send + 'static,
{
	install_panic_hook();
	let mut sim = Sim {
		rng: Xo(cfg.seed ^ 0xD1B54A32D192ED03),
		replay: cfg.tape.clone(),
		tape_then_random: cfg.tape_then_random,
		params: cfg.params.clone(),
		pos: 0,
		tape: Vec::new(),
		tasks: Vec::new(),
		classes: Vec::new(),
		parked: Vec::new(),
		granted: None,
		current: None,
		activity: 0,
		driver_waker: None,
		quiesce_waiters: Vec::new(),
		quiesce_epoch: 0,
		strategy: Strategy::Fifo,
		pct_changes: Vec::new(),
		steps: 0,
		max_steps: cfg.max_steps,
		t0: None,
		vtime_ms: 0,
		stamp: 0,
		hash: 0xcbf29ce484222325,
		sched_fp: 0xcbf29ce484222325,
		keep_log: cfg.keep_log,
		finished: false,
		log: Vec::new(),
		probes: BTreeMap::new(),
		violations: Vec::new(),
		panics: Vec::new(),
		expected_panic_markers: Vec::new(),
	};
	// strategy is the first decision on the tape
	let st = sim.draw(8);
	sim.strategy = match st {
		0 => Strategy::Fifo,
		1 | 2 | 3 => Strategy::Uniform,
		4 | 5 => Strategy::Pct,
		_ => Strategy::Starve(0),
	};
	if let Strategy::Starve(_) = sim.strategy {
		sim.strategy = Strategy::Starve(1 + sim.draw(7));
	}
	if sim.strategy == Strategy::Pct {
		for _ in 0..3 {
			let at = sim.draw(120) as u64;
			sim.pct_changes.push(at);
		}
	}
	let strategy = sim.strategy;
	SIM.with(|s| *s.borrow_mut() = Some(sim));
	verif::clear_client_tables();
	verif::net::clear_listeners();
	verif::set_gate_factory(Some(Box::new(|file, line| {
		let id = with(|s| {
			let name = if line == 0 {
				file.to_string()
			} else {
				format!("{}:{}", file.rsplit('/').next().unwrap_or(file), line)
			};
			let class = match s.classes.iter().position(|c| *c == name) {
				Some(p) => p as u32,
				None => {
					s.classes.push(name.clone());
					(s.classes.len() - 1) as u32
				}
			};
			let prio = if s.strategy == Strategy::Pct { 1 + s.draw(1 << 16) } else { 0 };
			s.tasks.push(TaskInfo { name, class, prio });
			(s.tasks.len() - 1) as u32
		});
		Box::new(Gate { id })
	})));
	// Preemption points (hook H8): only in runs that carry the run parameter `preempt`; everywhere else the points
	// are transparent (no draw, no yield), so tapes recorded without the parameter keep their meaning.
	let preempt_on = cfg.params.get("preempt").copied().unwrap_or(0) != 0;
	verif::set_preempt(if preempt_on {
		Some(Box::new(|site| {
			with(|s| {
				if s.finished {
					return (0, Duration::ZERO);
				}
				let (y, ms) = match s.draw(8) {
					0..=2 => (0, 0),
					3 => (1, 0),
					4 => (3, 0),
					5 => (12, 0),
					6 => (0, 1),
					_ => (2, 5),
				};
				if y > 0 || ms > 0 {
					*s.probes.entry("fault.preempted").or_insert(0) += 1;
					s.event("preempt", &format!("{site} yields={y} pause_ms={ms}"));
				}
				(y, Duration::from_millis(ms))
			})
		}))
	} else {
		None
	});
	let rt = tokio::runtime::Builder::new_current_thread()
		.enable_time()
		.start_paused(true)
		.rng_seed(tokio::runtime::RngSeed::from_bytes(&cfg.seed.to_le_bytes()))
		.build()
		.expect("runtime");
	let (end, _) = rt.block_on(async {
		with(|s| s.t0 = Some(tokio::time::Instant::now()));
		let h = spawn("main", scenario());
		drive(h).await
	});
	with(|s| s.finished = true);
	// Dropping the runtime drops every task (and with them clients, servers, streams).
	drop(rt);
	verif::set_gate_factory(None);
	verif::set_preempt(None);
	verif::clear_client_tables();
	let sim = SIM.with(|s| s.borrow_mut().take()).unwrap();
	RunOut {
		end,
		tape: sim.tape,
		hash: sim.hash,
		sched_fp: sim.sched_fp,
		steps: sim.steps,
		vtime_ms: sim.vtime_ms,
		log: sim.log,
		probes: sim.probes,
		violations: sim.violations,
		panics: sim.panics,
		strategy,
		tasks: sim.tasks.len(),
		keep_log_sample: false,
	}
}

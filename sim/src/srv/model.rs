//! Reference model of "what must the server answer to one message": a classifier over the message text, written
//! against the property statements (C01/C02), independent of the library's parsing code.

use serde::Deserialize;
use serde::de::{MapAccess, Visitor};
use serde_json::Value;
use serde_json::value::RawValue;

/// A JSON object with its members in document order, duplicates kept.
#[derive(Debug, Clone)]
pub struct Pairs(pub Vec<(String, Value)>);

impl<'de> Deserialize<'de> for Pairs {
	fn deserialize<D: serde::Deserializer<'de>>(d: D) -> Result<Self, D::Error> {
		struct V;
		impl<'de> Visitor<'de> for V {
			type Value = Pairs;
			fn expecting(&self, f: &mut std::fmt::Formatter) -> std::fmt::Result {
				f.write_str("object")
			}
			fn visit_map<A: MapAccess<'de>>(self, mut a: A) -> Result<Pairs, A::Error> {
				let mut v = Vec::new();
				while let Some((k, val)) = a.next_entry::<String, Value>()? {
					v.push((k, val));
				}
				Ok(Pairs(v))
			}
		}
		d.deserialize_map(V)
	}
}

#[derive(Debug, Clone, PartialEq)]
pub enum Want {
	/// exactly this result
	Result(Value),
	/// any result (e.g. a subscription id)
	AnyResult,
	/// any result, or an error with one of these codes
	AnyResultOrErr(Vec<i64>),
	/// an error with one of these codes
	Err(Vec<i64>),
}

#[derive(Debug, Clone, PartialEq)]
pub enum Expect {
	/// notification: no reply (HTTP: empty / null acknowledgement)
	NoReply,
	/// exactly one response object; `ids`: acceptable id values
	Reply { ids: Vec<Value>, want: Want },
	/// the classifier does not pin this message down (outside the property's quantifier): anything well-formed goes
	Unclassified,
}

#[derive(Debug, Clone, PartialEq)]
pub struct Classified {
	pub expect: Expect,
	/// (method, params raw text) when a handler must run
	pub invokes: Option<(String, Option<String>)>,
	pub is_call: bool,
	/// special input class, part of violation signatures
	pub quirk: Option<&'static str>,
}

pub fn id_in_domain(v: &Value) -> bool {
	match v {
		Value::Null => true,
		Value::String(_) => true,
		Value::Number(n) => n.is_u64(),
		_ => false,
	}
}

pub const REGISTERED: &[&str] = &["slow", "seqadd", "echo", "add", "len", "fail", "blob", "failblob", "aecho", "becho", "bpanic", "sub", "unsub"];

/// What a (deterministic) handler answers.
pub fn handler_model(method: &str, params: Option<&Value>, params_raw: Option<&str>) -> Want {
	match method {
		"echo" | "aecho" | "becho" | "slow" => Want::Result(params.cloned().unwrap_or(Value::Null)),
		"add" => match params.and_then(|p| p.as_array()) {
			Some(a) if a.len() == 2 => match (a[0].as_u64(), a[1].as_u64()) {
				(Some(x), Some(y)) if x <= u32::MAX as u64 && y <= u32::MAX as u64 => Want::Result(Value::from(x + y)),
				_ => Want::Err(vec![-32602]),
			},
			_ => Want::Err(vec![-32602]),
		},
		"seqadd" => match params.and_then(|p| p.as_array()) {
			Some(a) if a.len() >= 2 => match (a[0].as_u64(), a[1].as_u64()) {
				(Some(x), Some(y)) if x <= u32::MAX as u64 && y <= u32::MAX as u64 => Want::Result(Value::from(x + y)),
				_ => Want::Err(vec![-32602]),
			},
			_ => Want::Err(vec![-32602]),
		},
		"len" => Want::Result(Value::from(params_raw.map(|s| s.len()).unwrap_or(0))),
		"fail" => Want::Err(vec![-32050]),
		"bpanic" => Want::Err(vec![-32603]),
		_ => Want::Err(vec![-32601]),
	}
}

fn strip_ws(b: &[u8]) -> &[u8] {
	let n = b.iter().take_while(|c| matches!(c, b' ' | b'\t' | b'\n' | b'\r')).count();
	&b[n..]
}

#[derive(Deserialize)]
struct RawParams<'a> {
	#[serde(borrow)]
	params: Option<&'a RawValue>,
}

/// Classify a single (non-batch) message, or one batch entry given as text.
pub fn classify(msg: &[u8]) -> Classified {
	let unclassified = Classified { expect: Expect::Unclassified, invokes: None, is_call: false, quirk: None };
	let parse_err = Classified { expect: Expect::Reply { ids: vec![Value::Null], want: Want::Err(vec![-32700]) }, invokes: None, is_call: false, quirk: None };
	let body = strip_ws(msg);
	// Rust's `is_ascii_whitespace` also covers form feed, JSON's whitespace does not: a message whose leading
	// "whitespace" contains 0x0c is, strictly, not JSON; the property's quantifier leaves it open. It is kept out of
	// the matching and only checked for agreement between the transports.
	if let Some(first) = msg.iter().position(|b| !matches!(b, b' ' | b'\t' | b'\n' | b'\r' | 0x0c)) {
		if msg[..first].contains(&0x0c) {
			let mut inner = classify(&msg[first..]);
			inner.quirk = Some("formfeed-in-leading-whitespace");
			return inner;
		}
	}
	let Ok(text) = std::str::from_utf8(body) else {
		// not UTF-8, hence not JSON. Note the sub-class "JSON-shaped once decoded lossily" (bad bytes inside a string)
		let lossy = String::from_utf8_lossy(body);
		let quirk = if serde_json::from_str::<Value>(&lossy).is_ok() { Some("invalid-utf8-inside-json") } else { None };
		return Classified { quirk, ..parse_err };
	};
	// syntactic validity first (RawValue does not interpret numbers)
	if serde_json::from_str::<&RawValue>(text).is_err() {
		return parse_err;
	}
	let Ok(v) = serde_json::from_str::<Value>(text) else {
		// syntactically valid but not representable (e.g. number out of range): not pinned down
		return unclassified;
	};
	let not_request = |ids: Vec<Value>| Classified { expect: Expect::Reply { ids, want: Want::Err(vec![-32600, -32700]) }, invokes: None, is_call: false, quirk: None };
	let Value::Object(_) = v else {
		return not_request(vec![Value::Null]);
	};
	let Ok(Pairs(pairs)) = serde_json::from_str::<Pairs>(text) else { return unclassified };
	let count = |k: &str| pairs.iter().filter(|(n, _)| n == k).count();
	let get = |k: &str| pairs.iter().find(|(n, _)| n == k).map(|(_, v)| v);
	if count("id") > 1 {
		// an object whose `id` member occurs more than once is not a request; it is not a notification either unless
		// none of the values is an id the library can represent (that case is left open)
		let mut ids: Vec<Value> = pairs.iter().filter(|(n, v)| n == "id" && id_in_domain(v)).map(|(_, v)| v.clone()).collect();
		if ids.is_empty() {
			return unclassified;
		}
		ids.push(Value::Null);
		return not_request(ids);
	}
	// duplicated unknown members are not generated; treat as unclassified
	let known = ["jsonrpc", "id", "method", "params"];
	for (k, _) in &pairs {
		if !known.contains(&k.as_str()) && count(k) > 1 {
			return unclassified;
		}
	}
	let dup_known = known.iter().any(|k| count(k) > 1);
	let id = get("id");
	let id_ok = id.map(id_in_domain);
	let version_ok = get("jsonrpc") == Some(&Value::String("2.0".into()));
	let method = get("method").and_then(|m| m.as_str());
	let valid = version_ok && method.is_some() && !dup_known;
	let recoverable: Vec<Value> = match (id, id_ok) {
		(Some(i), Some(true)) => vec![i.clone(), Value::Null],
		_ => vec![Value::Null],
	};
	if !valid {
		return not_request(recoverable);
	}
	match id_ok {
		None | Some(false) => Classified { expect: Expect::NoReply, invokes: None, is_call: false, quirk: None },
		Some(true) => {
			let method = method.unwrap();
			let params = get("params");
			let raw = serde_json::from_str::<RawParams>(text).ok().and_then(|r| r.params.map(|p| p.get().to_string()));
			let want = handler_model(method, params, raw.as_deref());
			let invokes = if REGISTERED.contains(&method) { Some((method.to_string(), raw)) } else { None };
			Classified { expect: Expect::Reply { ids: vec![id.unwrap().clone()], want }, invokes, is_call: true, quirk: None }
		}
	}
}

/// Is this frame/body one well-formed JSON-RPC 2.0 response object? Returns (id, Ok(result) | Err(code)).
pub fn parse_response(text: &[u8]) -> Result<(Value, Result<Value, i64>), String> {
	let s = std::str::from_utf8(text).map_err(|_| "reply is not UTF-8".to_string())?;
	let Pairs(p) = serde_json::from_str::<Pairs>(s).map_err(|e| format!("reply is not a JSON object: {e}"))?;
	let count = |k: &str| p.iter().filter(|(n, _)| n == k).count();
	let get = |k: &str| p.iter().find(|(n, _)| n == k).map(|(_, v)| v);
	if get("jsonrpc") != Some(&Value::String("2.0".into())) || count("jsonrpc") != 1 {
		return Err("reply lacks jsonrpc \"2.0\"".into());
	}
	if count("id") != 1 {
		return Err("reply does not have exactly one id".into());
	}
	let id = get("id").unwrap().clone();
	if !id_in_domain(&id) {
		return Err("reply id is outside null/u64/string".into());
	}
	match (count("result"), count("error")) {
		(1, 0) => Ok((id, Ok(get("result").unwrap().clone()))),
		(0, 1) => {
			let e = get("error").unwrap();
			let code = e.get("code").and_then(|c| c.as_i64()).ok_or("error object without integer code")?;
			if e.get("message").and_then(|m| m.as_str()).is_none() {
				return Err("error object without message".into());
			}
			Ok((id, Err(code)))
		}
		_ => Err("reply does not have exactly one of result/error".into()),
	}
}

pub fn satisfies(exp: &Expect, id: &Value, outcome: &Result<Value, i64>) -> bool {
	match exp {
		Expect::Reply { ids, want } => {
			ids.contains(id)
				&& match (want, outcome) {
					(Want::Result(w), Ok(v)) => w == v,
					(Want::AnyResult, Ok(_)) => true,
					(Want::AnyResultOrErr(_), Ok(_)) => true,
					(Want::AnyResultOrErr(codes), Err(c)) => codes.contains(c),
					(Want::Err(codes), Err(c)) => codes.contains(c),
					_ => false,
				}
		}
		_ => false,
	}
}

/// Maximum bipartite matching between replies and expectations. Returns (for each expectation: index of the reply
/// matched to it, for each reply: whether it is matched).
pub fn match_replies(replies: &[(Value, Result<Value, i64>)], expects: &[&Expect]) -> (Vec<Option<usize>>, Vec<bool>) {
	let adj: Vec<Vec<usize>> = replies.iter().map(|(id, out)| (0..expects.len()).filter(|e| satisfies(expects[*e], id, out)).collect()).collect();
	let mut m: Vec<Option<usize>> = vec![None; expects.len()];
	fn augment(f: usize, adj: &Vec<Vec<usize>>, seen: &mut Vec<bool>, m: &mut Vec<Option<usize>>) -> bool {
		for &e in &adj[f] {
			if seen[e] {
				continue;
			}
			seen[e] = true;
			if m[e].is_none() || augment(m[e].unwrap(), adj, seen, m) {
				m[e] = Some(f);
				return true;
			}
		}
		false
	}
	for f in 0..replies.len() {
		let mut seen = vec![false; expects.len()];
		augment(f, &adj, &mut seen, &mut m);
	}
	let mut matched = vec![false; replies.len()];
	for x in m.iter().flatten() {
		matched[*x] = true;
	}
	(m, matched)
}

/// Classification of one batch entry (already known to be valid JSON): invalid entries are answered -32600 only.
pub fn classify_entry(text: &str, http: bool) -> Classified {
	let mut c = classify(text.as_bytes());
	if let Expect::Reply { want: Want::Err(codes), .. } = &mut c.expect {
		if codes == &vec![-32600, -32700] {
			*codes = vec![-32600];
		}
	}
	// subscription methods
	if c.is_call {
		let method = c.invokes.as_ref().map(|i| i.0.as_str()).unwrap_or("");
		if method == "sub" || method == "unsub" {
			if let Expect::Reply { want, .. } = &mut c.expect {
				// (a subscribe call may be refused with -32006 when the connection's subscription cap is exhausted)
				*want = if http { Want::Err(vec![-32603]) } else if method == "sub" { Want::AnyResultOrErr(vec![-32006]) } else { Want::AnyResult };
			}
			if http || method == "unsub" {
				c.invokes = None;
			}
		}
	}
	c
}

//! C10 — graceful stop answers received calls and reports stopped only when done.
//!
//! Real server (`Server::start` on the simulated listener, or one `TowerService` per connection), 0-2 WebSocket
//! and 0-2 HTTP keep-alive connections, calls with drawn handler latency, subscriptions; `stop()` lands at a drawn
//! step of the history (search) or before every step of a stop-free base history (sweep).

use std::sync::{Arc, Mutex};
use std::time::Duration;

use serde_json::Value;

use super::model::parse_response;
use super::stream::{Ctl, Frag};
use super::world::{self, Entry, SrvCfg, World, WsOpen, WsTx};
use crate::rt;

const P: &str = "C10";

#[derive(Debug, Clone)]
enum Step {
	WsCall(usize, &'static str),
	WsSub(usize),
	/// a subscribe call whose handler accepts only after a while (possibly after the stop)
	WsSlowSub(usize),
	/// a call that never finishes; its connection is left by the peer after the stop (possibly after one more frame)
	WsHang(usize),
	/// a frame larger than max_request_body_size (refused with -32007; the connection goes on)
	WsOversized(usize),
	HttpCall(usize, &'static str),
	Settle(u32),
	WsDisconnect(usize),
	Stop,
}

struct WsConn {
	tx: Option<WsTx>,
	ctl: Ctl,
	frames: Arc<Mutex<Vec<(u64, Value)>>>,
	disconnected: Option<u64>,
}

pub async fn scenario() {
	let sweep_base = rt::param("sweep_base").is_some();
	let entry = *rt::pick("entry", &[Entry::Default, Entry::Tower, Entry::Default, Entry::LowLevel]);
	let buf_cap = *rt::pick("buf_cap", &[1024u32, 1, 2]);
	let frag = if rt::chance("frag", 1, 4) { Frag { short: true, latency_ms: 2, cap: *rt::pick("stream_cap", &[0usize, 48, 200]) } } else { Frag::default() };
	let n_ws = rt::draw("n_ws", 3) as usize;
	let n_http = rt::draw("n_http", 3) as usize;
	let n_steps = rt::draw_range("n_steps", 2, 12);
	let mut steps = Vec::new();
	for _ in 0..n_steps {
		let m = *rt::pick("method", &["echo", "aecho", "aecho", "becho"]);
		steps.push(match rt::draw("step", 16) {
			15 if n_ws > 0 => Step::WsOversized(rt::draw("c", n_ws as u32) as usize),
			12 | 13 if n_ws > 0 => Step::WsSlowSub(rt::draw("c", n_ws as u32) as usize),
			14 if n_ws > 0 && !sweep_base => Step::WsHang(rt::draw("c", n_ws as u32) as usize),
			0..=4 if n_ws > 0 => Step::WsCall(rt::draw("c", n_ws as u32) as usize, m),
			5 if n_ws > 0 => Step::WsSub(rt::draw("c", n_ws as u32) as usize),
			6..=8 if n_http > 0 => Step::HttpCall(rt::draw("c", n_http as u32) as usize, m),
			9 if n_ws > 0 && !sweep_base => Step::WsDisconnect(rt::draw("c", n_ws as u32) as usize),
			_ => Step::Settle(rt::draw_range("ms", 1, 40)),
		});
	}
	let stop_at = match rt::param("fault_at") {
		Some(p) => (p as usize - 1).min(steps.len()),
		None if sweep_base => steps.len(),
		None => rt::draw("stop_at", steps.len() as u32 + 1) as usize,
	};
	steps.insert(stop_at, Step::Stop);
	rt::event("plan", format!("entry={entry:?} buf_cap={buf_cap} frag={frag:?} ws={n_ws} http={n_http} steps={steps:?}"));

	let mut world = World::new(SrvCfg { entry, buf_cap, frag, auto_sub: true, max_req: 1024, ..Default::default() });
	world.start().await;
	// ---------------- connections ----------------
	let mut ws: Vec<WsConn> = Vec::new();
	for ci in 0..n_ws {
		let (end, ctl) = world.connect(&format!("ws{ci}"));
		if let WsOpen::Open(tx, mut rx) = world::ws_handshake(end).await {
			let frames: Arc<Mutex<Vec<(u64, Value)>>> = Arc::default();
			let f2 = frames.clone();
			rt::spawn("ws-reader", async move {
				while let Some(f) = world::ws_recv(&mut rx).await {
					let text = String::from_utf8_lossy(&f).to_string();
					let st = rt::event("ws-frame", format!("c{ci} {}", text.chars().take(200).collect::<String>()));
					f2.lock().unwrap().push((st, serde_json::from_str(&text).unwrap_or(Value::Null)));
				}
				rt::event("ws-reader-eof", format!("c{ci}"));
			});
			ws.push(WsConn { tx: Some(tx), ctl, frames, disconnected: None });
		}
	}
	let n_ws = ws.len();
	let mut http: Vec<(Arc<tokio::sync::Mutex<Option<world::HttpPeer>>>, Ctl)> = Vec::new();
	for ci in 0..n_http {
		let (end, ctl) = world.connect(&format!("http{ci}"));
		let peer = world::http_handshake(end).await.ok();
		http.push((Arc::new(tokio::sync::Mutex::new(peer)), ctl));
	}
	let http_replies: Arc<Mutex<Vec<(u64, Result<world::HttpReply, String>)>>> = Arc::default();
	// ---------------- director ----------------
	let handle = world.server_handle.clone().expect("server handle");
	let mut nonce = 500u64;
	let mut sent_ws: Vec<(usize, u64, u64)> = Vec::new(); // (conn, nonce, stamp)
	let mut sent_http: Vec<(usize, u64)> = Vec::new();
	let mut hang_conns: Vec<usize> = Vec::new();
	let mut stop_stamp = None;
	let mut http_tasks = Vec::new();
	for step in &steps {
		nonce += 1;
		match step {
			Step::WsCall(c, m) if *c < n_ws => {
				if let Some(tx) = ws[*c].tx.as_mut() {
					let msg = format!("{{\"jsonrpc\":\"2.0\",\"id\":{nonce},\"method\":\"{m}\",\"params\":[{nonce}]}}");
					let st = rt::event("dir-ws-call", format!("c{c} {msg}"));
					if world::ws_send(tx, msg.as_bytes(), false).await.is_ok() {
						sent_ws.push((*c, nonce, st));
					}
				}
			}
			Step::WsSub(c) if *c < n_ws => {
				if let Some(tx) = ws[*c].tx.as_mut() {
					let msg = format!("{{\"jsonrpc\":\"2.0\",\"id\":{nonce},\"method\":\"sub\",\"params\":[{nonce}]}}");
					let st = rt::event("dir-ws-sub", format!("c{c}"));
					if world::ws_send(tx, msg.as_bytes(), false).await.is_ok() {
						sent_ws.push((*c, nonce, st));
					}
				}
			}
			Step::WsSlowSub(c) if *c < n_ws => {
				if let Some(tx) = ws[*c].tx.as_mut() {
					let msg = format!("{{\"jsonrpc\":\"2.0\",\"id\":{nonce},\"method\":\"dsub\",\"params\":[{nonce}]}}");
					let st = rt::event("dir-ws-slow-sub", format!("c{c} {msg}"));
					if world::ws_send(tx, msg.as_bytes(), false).await.is_ok() {
						sent_ws.push((*c, nonce, st));
					}
				}
			}
			Step::WsHang(c) if *c < n_ws && !hang_conns.contains(c) => {
				if let Some(tx) = ws[*c].tx.as_mut() {
					let msg = format!("{{\"jsonrpc\":\"2.0\",\"id\":{nonce},\"method\":\"hang\",\"params\":[{nonce}]}}");
					let st = rt::event("dir-ws-hang-call", format!("c{c} {msg}"));
					rt::probe("never_ending_call");
					if world::ws_send(tx, msg.as_bytes(), false).await.is_ok() {
						sent_ws.push((*c, nonce, st));
						hang_conns.push(*c);
					}
				}
			}
			Step::WsOversized(c) if *c < n_ws => {
				if let Some(tx) = ws[*c].tx.as_mut() {
					let msg = format!("{{\"jsonrpc\":\"2.0\",\"id\":{nonce},\"method\":\"echo\",\"params\":[\"{}\"]}}", "x".repeat(2000));
					rt::event("dir-ws-oversized", format!("c{c} {} bytes", msg.len()));
					rt::probe("oversized_frame");
					let _ = world::ws_send(tx, msg.as_bytes(), false).await;
				}
			}
			Step::HttpCall(c, m) => {
				let (peer, out) = (http[*c].0.clone(), http_replies.clone());
				let msg = format!("{{\"jsonrpc\":\"2.0\",\"id\":{nonce},\"method\":\"{m}\",\"params\":[{nonce}]}}");
				rt::event("dir-http-call", format!("c{c} {msg}"));
				sent_http.push((*c, nonce));
				let n = nonce;
				http_tasks.push(rt::spawn("http-peer", async move {
					let mut g = peer.lock().await;
					let r = match g.as_mut() {
						Some(p) => p.post(msg.into_bytes(), Some("application/json")).await,
						None => Err("no connection".into()),
					};
					rt::event("http-result", format!("{n} {r:?}").chars().take(200).collect::<String>());
					out.lock().unwrap().push((n, r));
				}));
			}
			Step::WsDisconnect(c) if *c < n_ws => {
				if let Some(tx) = ws[*c].tx.take() {
					let st = rt::event("dir-ws-disconnect", format!("c{c}"));
					rt::probe("fault.peer_disconnect");
					drop(tx);
					if rt::chance("disconnect_for_good", 1, 2) {
						// (dropping the writer alone leaves the socket open in the reader's hands)
						ws[*c].ctl.reset();
					}
					ws[*c].disconnected = Some(st);
				}
			}
			Step::Settle(ms) => tokio::time::sleep(Duration::from_millis(*ms as u64)).await,
			Step::Stop => {
				let st = rt::event("dir-stop", "");
				rt::probe("fault.server_stop");
				let _ = handle.stop();
				world.drop_stop_handle();
				stop_stamp = Some(st);
			}
			_ => {}
		}
		rt::yield_n(rt::draw("between", 3)).await;
	}
	// a connection with a call that never finishes is left by its peer after the stop: possibly one more frame first
	// (the server has to keep reading the socket while it drains), then the peer goes away
	for c in hang_conns {
		if ws[c].tx.is_none() {
			// the writer half is gone already (an earlier disconnect step): make the peer go away for good
			ws[c].ctl.reset();
			continue;
		}
		if let Some(mut tx) = ws[c].tx.take() {
			tokio::time::sleep(Duration::from_millis(rt::draw_range("leave_after_ms", 1, 20) as u64)).await;
			if rt::chance("late_frame", 2, 3) {
				nonce += 1;
				let msg = format!("{{\"jsonrpc\":\"2.0\",\"id\":{nonce},\"method\":\"echo\",\"params\":[{nonce}]}}");
				rt::event("dir-ws-late-frame", format!("c{c}"));
				let _ = tokio::time::timeout(Duration::from_millis(100), world::ws_send(&mut tx, msg.as_bytes(), false)).await;
				tokio::time::sleep(Duration::from_millis(rt::draw_range("leave_after_ms2", 1, 20) as u64)).await;
			}
			let st = rt::event("dir-ws-disconnect", format!("c{c} (after a never-ending call)"));
			rt::probe("fault.peer_disconnect");
			if rt::chance("close_frame", 1, 2) {
				let _ = tokio::time::timeout(Duration::from_millis(100), tx.close()).await;
			} else {
				// (the reader task of the harness still holds the other half of the socket: a reset is what makes the
				// peer really go away)
				ws[c].ctl.reset();
			}
			drop(tx);
			ws[c].disconnected = Some(st);
		}
	}
	// stopping twice never panics or hangs
	let _ = handle.stop();
	world.server_handle = None;
	let stopped = tokio::time::timeout(Duration::from_secs(3600), handle.stopped()).await;
	let stopped_stamp = rt::event("stopped-resolved", format!("{}", stopped.is_ok()));
	if stopped.is_err() {
		rt::violate(P, "stopped-never-resolves", format!("{entry:?}"), "stop() was called but stopped() did not resolve within an hour of virtual time");
	}
	let inv_at_stopped = world.log.lock().unwrap().invocations.len();
	// a call first sent after `stopped` resolved is not executed
	if entry == Entry::Default {
		let (end, _c) = world.connect("late");
		let late = rt::spawn("late-peer", async move {
			if let Ok(mut p) = world::http_handshake(end).await {
				let _ = tokio::time::timeout(Duration::from_secs(5), p.post(b"{\"jsonrpc\":\"2.0\",\"id\":1,\"method\":\"echo\",\"params\":[1]}".to_vec(), Some("application/json"))).await;
			}
		});
		let _ = tokio::time::timeout(Duration::from_secs(10), late).await;
	}
	for t in http_tasks {
		let _ = tokio::time::timeout(Duration::from_secs(30), t).await;
	}
	rt::quiesce().await;
	if sweep_base {
		rt::probe_n("steps", steps.len() as u64 - 1);
	}
	// ---------------- oracle ----------------
	let log = world.log.lock().unwrap();
	let _ = inv_at_stopped;
	for inv in &log.invocations {
		if inv.stamp > stopped_stamp && stopped.is_ok() {
			// A call that was sent before, on a connection whose peer went away before stopped() resolved, may still be
			// picked up by its (detached) task afterwards: nobody is there to be answered, the connection is finished
			// and the property does not speak about it. Everything else - the call of the late peer, a call on a
			// connection that is still there - must not run.
			let n = inv.params.as_ref().and_then(|p| serde_json::from_str::<Vec<u64>>(p).ok()).and_then(|v| v.first().copied());
			let peer_left_before = n.and_then(|n| sent_ws.iter().find(|s| s.1 == n)).is_some_and(|(c, _, sent)| *sent < stopped_stamp && ws[*c].disconnected.is_some_and(|d| d < stopped_stamp));
			if peer_left_before {
				rt::probe("handler_ran_after_stopped_for_a_peer_that_left");
				continue;
			}
			rt::violate(P, "executed-after-stopped", format!("{entry:?}:stamp"), format!("handler {} started at #{} after stopped() resolved at #{stopped_stamp}", inv.method, inv.stamp));
		}
	}
	// every server-side stream is gone when stopped() resolves
	if stopped.is_ok() {
		for (k, c) in ws.iter().map(|w| &w.ctl).chain(http.iter().map(|h| &h.1)).enumerate() {
			match c.server_dropped() {
				Some(d) if d < stopped_stamp => {}
				other => rt::violate(P, "stopped-before-connections-finished", format!("{entry:?}"), format!("stopped() resolved at #{stopped_stamp} but the server side of connection {k} was dropped at {other:?}")),
			}
		}
	}
	// every call whose handler started is answered to its peer
	let mut nontrivial = false;
	for inv in log.invocations.iter().filter(|i| i.method != "sub") {
		// (the answer to a subscribe call is the subscription id)
		let is_sub_call = inv.method == "dsub";
		let Some(n) = inv.params.as_ref().and_then(|p| serde_json::from_str::<Vec<u64>>(p).ok()).and_then(|v| v.first().copied()) else { continue };
		if let Some((c, _, _)) = sent_ws.iter().find(|s| s.1 == n) {
			let w = &ws[*c];
			let answered = w.frames.lock().unwrap().iter().any(|(_, f)| f.get("id") == Some(&Value::from(n)) && (f.get("result") == Some(&serde_json::json!([n])) || (is_sub_call && f.get("result").is_some())));
			let peer_gone = w.disconnected.is_some();
			if !answered && !peer_gone {
				let in_flight_at_stop = stop_stamp.is_some_and(|s| inv.stamp < s);
				rt::violate(P, "started-call-not-answered", format!("ws:{}:{}", inv.method, if in_flight_at_stop { "executing-at-stop" } else { "started-after-stop" }), format!("handler {} started at #{} for call {n} on a WebSocket connection whose peer kept reading, but no answer arrived (stop at {stop_stamp:?})", inv.method, inv.stamp));
			}
			if stop_stamp.is_some_and(|s| inv.stamp < s) && answered {
				let ans_stamp = w.frames.lock().unwrap().iter().find(|(_, f)| f.get("id") == Some(&Value::from(n))).map(|f| f.0).unwrap_or(0);
				if stop_stamp.is_some_and(|s| ans_stamp > s) {
					nontrivial = true;
				}
			}
		} else if sent_http.iter().any(|s| s.1 == n) {
			let r = http_replies.lock().unwrap().iter().find(|r| r.0 == n).map(|r| r.1.clone());
			let answered = matches!(&r, Some(Ok(rep)) if matches!(parse_response(&rep.body), Ok((id, Ok(v))) if id == Value::from(n) && v == serde_json::json!([n])));
			if !answered {
				rt::violate(P, "started-call-not-answered", format!("http:{}", inv.method), format!("handler {} started at #{} for HTTP call {n}, but the peer got {r:?} (stop at {stop_stamp:?})", inv.method, inv.stamp));
			} else if stop_stamp.is_some_and(|s| inv.stamp < s) {
				nontrivial = true;
			}
		}
	}
	if nontrivial {
		rt::probe("nontrivial");
	}
}

//! The server under simulation: harness RPC module, stamping RPC middleware, three ways of assembling the server
//! on simulated streams, and raw peers (soketto WebSocket client, hyper HTTP/1 client, direct tower calls).

use std::future::Future;
use std::sync::atomic::{AtomicU32, AtomicU64, Ordering};
use std::sync::{Arc, Mutex};
use std::time::Duration;

use futures_util::io::{BufReader, BufWriter};
use jsonrpsee_core::middleware::{Batch, Notification, RpcServiceBuilder, RpcServiceT};
use jsonrpsee_server::middleware::rpc::RpcService;
use jsonrpsee_server::{
	BatchRequestConfig, ConnectionGuard, ConnectionId, ConnectionState, Extensions, HttpBody, HttpRequest, HttpResponse, IdProvider, MethodResponse, Methods,
	PendingSubscriptionSink, RpcModule, ServerConfig, ServerHandle, StopHandle, SubscriptionMessage, SubscriptionSink, TowerServiceBuilder, stop_channel,
};
use jsonrpsee_types::{ErrorObjectOwned, Params, Request, SubscriptionId};
use serde_json::{Value, json};
use tokio::sync::mpsc;
use tokio_util::compat::TokioAsyncReadCompatExt;

use super::stream::{self, Ctl, End, Frag};
use crate::rt;

pub const PANIC_MARKER: &str = "bpanic-on-purpose";

// ------------------------------------------------------------------------------------------------
// logs

#[derive(Debug, Clone)]
pub struct Invocation {
	pub stamp: u64,
	pub conn: usize,
	pub method: String,
	pub params: Option<String>,
}

#[derive(Debug, Clone)]
pub struct MwEvent {
	pub stamp: u64,
	pub conn: usize,
	pub kind: &'static str, // "call-start" | "call-end" | "batch-start" | "batch-end" | "notif"
	pub method: String,
	pub id: String,
	pub response: Option<String>,
}

#[derive(Default)]
pub struct SrvLog {
	pub invocations: Vec<Invocation>,
	pub mw: Vec<MwEvent>,
	pub guard_obs: Vec<(u64, usize, usize)>, // (stamp, max, available) seen by handlers
}

pub type Log = Arc<Mutex<SrvLog>>;

fn conn_of(ext: &Extensions) -> usize {
	ext.get::<ConnectionId>().map(|c| c.0).unwrap_or(usize::MAX)
}

fn log_invocation(log: &Log, ext: &Extensions, method: &str, params: &Params) {
	let p = params.as_str().map(|s| s.to_string());
	let stamp = rt::event("handler", format!("{method} conn={} params={}", conn_of(ext), p.as_deref().unwrap_or("-")));
	let mut l = log.lock().unwrap();
	l.invocations.push(Invocation { stamp, conn: conn_of(ext), method: method.to_string(), params: p });
	if let Some(g) = ext.get::<ConnectionGuard>() {
		l.guard_obs.push((stamp, g.max_connections(), g.available_connections()));
	}
}

// ------------------------------------------------------------------------------------------------
// subscription remote control

#[derive(Debug)]
pub enum SubCmd {
	Accept,
	/// `timeout(ms, pending.accept())`: under back-pressure the accept is abandoned half-way
	AcceptTimeout(u64),
	Reject,
	/// send an item with this payload
	Send(u64),
	TrySend(u64),
	SendTimeout(u64, u64),
	CloneSink,
	DropClone,
	CheckClosed,
	/// `timeout(ms, sink.closed())`: does the closed() future resolve?
	AwaitClosed(u64),
	/// finish the handler: 0 = Ok(()), 1 = Err (error close notification), 2 = close notification with payload
	Return(u32),
	/// drop the pending sink without accept/reject and return
	DropPending,
	/// the callback returns Ok(()) while a worker task keeps the sink (and its clones) and goes on obeying commands
	Detach,
}

#[derive(Debug, Clone)]
pub struct SubEvent {
	pub invoked: u64,
	pub returned: u64,
	pub what: String,
	pub ok: bool,
	pub payload: Option<u64>,
}

pub struct SubCtl {
	pub conn: usize,
	pub sub_id: String,
	pub params: Option<String>,
	pub started: u64,
	pub cmd: mpsc::UnboundedSender<SubCmd>,
	pub events: Arc<Mutex<Vec<SubEvent>>>,
	/// stamp at which the handler future finished (all sinks it owned are dropped by then)
	pub finished: Arc<Mutex<Option<u64>>>,
	/// stamp at which the handler let go of its last sink (or of the pending sink)
	pub released: Arc<Mutex<Option<u64>>>,
}

pub type SubRegistry = Arc<Mutex<Vec<Arc<SubCtl>>>>;

/// Scripted subscription ids: the harness queues the ids to be dealt; falls back to a counter.
#[derive(Debug, Default)]
pub struct ScriptedIds {
	pub queue: Mutex<Vec<SubscriptionId<'static>>>,
	pub ctr: AtomicU64,
}

#[derive(Debug, Clone)]
pub struct IdsHandle(pub Arc<ScriptedIds>);

impl IdProvider for IdsHandle {
	fn next_id(&self) -> SubscriptionId<'static> {
		let mut q = self.0.queue.lock().unwrap();
		if !q.is_empty() {
			return q.remove(0);
		}
		let n = self.0.ctr.fetch_add(1, Ordering::Relaxed);
		if n % 2 == 0 { SubscriptionId::Num(9000 + n) } else { SubscriptionId::Str(format!("sub-{}", 9000 + n).into()) }
	}
}

// ------------------------------------------------------------------------------------------------
// the module

pub fn blob_string(n: usize, kind: u64) -> String {
	match kind {
		0 => "a".repeat(n),
		1 => "\"\\\n".chars().cycle().take(n).collect(),
		_ => "é€😀".chars().cycle().take(n).collect(),
	}
}

pub fn build_module(log: Log, subs: SubRegistry, auto_sub: bool, hang: tokio::sync::watch::Receiver<bool>) -> RpcModule<()> {
	let mut m = RpcModule::new(());
	{
		// a call that does not finish until the harness says so (`World::release_hangs`)
		let log = log.clone();
		m.register_async_method("hang", move |p, _, ext| {
			let (log, mut hang) = (log.clone(), hang.clone());
			async move {
				log_invocation(&log, &ext, "hang", &p);
				let _ = hang.wait_for(|released| *released).await;
				rt::event("handler-done", "hang");
				p.parse::<Value>()
			}
		})
		.unwrap();
	}
	{
		let log = log.clone();
		m.register_method("echo", move |p, _, ext| {
			log_invocation(&log, ext, "echo", &p);
			p.parse::<Value>()
		})
		.unwrap();
	}
	{
		let log = log.clone();
		m.register_method("add", move |p, _, ext| {
			log_invocation(&log, ext, "add", &p);
			let (a, b): (u32, u32) = p.parse()?;
			Ok::<u64, ErrorObjectOwned>(a as u64 + b as u64)
		})
		.unwrap();
	}
	{
		let log = log.clone();
		m.register_method("seqadd", move |p, _, ext| {
			log_invocation(&log, ext, "seqadd", &p);
			// element-by-element decoding, as the code generated by the rpc macro does
			let mut seq = p.sequence();
			let a: u32 = seq.next()?;
			let b: u32 = seq.next()?;
			Ok::<u64, ErrorObjectOwned>(a as u64 + b as u64)
		})
		.unwrap();
	}
	{
		let log = log.clone();
		m.register_method("len", move |p, _, ext| {
			log_invocation(&log, ext, "len", &p);
			p.as_str().map(|s| s.len()).unwrap_or(0)
		})
		.unwrap();
	}
	{
		let log = log.clone();
		m.register_method("fail", move |p, _, ext| {
			log_invocation(&log, ext, "fail", &p);
			Err::<u8, _>(ErrorObjectOwned::owned(-32050, "custom failure", Some(json!({"why": [1, 2, 3]}))))
		})
		.unwrap();
	}
	{
		let log = log.clone();
		m.register_method("blob", move |p, _, ext| {
			log_invocation(&log, ext, "blob", &p);
			let (n, kind): (usize, u64) = p.parse()?;
			Ok::<String, ErrorObjectOwned>(blob_string(n, kind))
		})
		.unwrap();
	}
	{
		// an error without data whose message is long: [n]
		let log = log.clone();
		m.register_method("failmsg", move |p, _, ext| {
			log_invocation(&log, ext, "failmsg", &p);
			let n: usize = p.one().unwrap_or(0);
			Err::<u8, _>(ErrorObjectOwned::owned(-32052, "m".repeat(n), None::<()>))
		})
		.unwrap();
	}
	{
		// like `blob`, but asynchronous and slow: [n, kind, delay in ms]
		let log = log.clone();
		m.register_async_method("ablob", move |p, _, ext| {
			let log = log.clone();
			async move {
				log_invocation(&log, &ext, "ablob", &p);
				let (n, kind, delay): (usize, u64, u64) = p.parse()?;
				if delay > 0 {
					tokio::time::sleep(Duration::from_millis(delay)).await;
				}
				Ok::<String, ErrorObjectOwned>(blob_string(n, kind))
			}
		})
		.unwrap();
	}
	{
		// a blocking method that panics with a long message: [n]
		let log = log.clone();
		m.register_blocking_method("bpanicn", move |p, _, ext| {
			log_invocation(&log, &ext, "bpanicn", &p);
			let n: usize = p.one().unwrap_or(0);
			if true {
				panic!("{PANIC_MARKER} {}", "x".repeat(n));
			}
			0u8
		})
		.unwrap();
	}
	{
		let log = log.clone();
		m.register_method("failblob", move |p, _, ext| {
			log_invocation(&log, ext, "failblob", &p);
			let n: usize = p.one().unwrap_or(0);
			Err::<u8, _>(ErrorObjectOwned::owned(-32051, "big failure", Some(blob_string(n, 0))))
		})
		.unwrap();
	}
	{
		let log = log.clone();
		m.register_async_method("aecho", move |p, _, ext| {
			let log = log.clone();
			async move {
				log_invocation(&log, &ext, "aecho", &p);
				// the delay profile is part of the params: [.., {"d": k}] is too intrusive; use draws instead
				match rt::draw("aecho-delay", 4) {
					0 => {}
					1 => rt::yield_n(1 + rt::draw("aecho-yields", 3)).await,
					2 => tokio::time::sleep(Duration::from_millis(1 + rt::draw("aecho-ms", 20) as u64)).await,
					_ => tokio::time::sleep(Duration::from_millis(100 + rt::draw("aecho-long", 900) as u64)).await,
				}
				rt::event("handler-done", "aecho");
				p.parse::<Value>()
			}
		})
		.unwrap();
	}
	{
		let log = log.clone();
		m.register_async_method("slow", move |p, _, ext| {
			let log = log.clone();
			async move {
				log_invocation(&log, &ext, "slow", &p);
				tokio::time::sleep(Duration::from_millis(300)).await;
				rt::event("handler-done", "slow");
				p.parse::<Value>()
			}
		})
		.unwrap();
	}
	{
		let log = log.clone();
		m.register_blocking_method("becho", move |p, _, ext| {
			log_invocation(&log, &ext, "becho", &p);
			p.parse::<Value>()
		})
		.unwrap();
	}
	{
		let log = log.clone();
		m.register_blocking_method("bpanic", move |p, _, ext| {
			log_invocation(&log, &ext, "bpanic", &p);
			if true {
				panic!("{PANIC_MARKER}");
			}
			0u8
		})
		.unwrap();
	}
	{
		// a subscription whose handler takes a while before it accepts: [n]
		let log = log.clone();
		m.register_subscription("dsub", "dnotif", "dunsub", move |p, pending, _, ext| {
			let log = log.clone();
			async move {
				log_invocation(&log, &ext, "dsub", &p);
				tokio::time::sleep(Duration::from_millis(1 + rt::draw("dsub-ms", 60) as u64)).await;
				let sink = pending.accept().await?;
				rt::event("handler-done", "dsub accepted");
				let n: u64 = p.one().unwrap_or(0);
				let _ = sink.send(SubscriptionMessage::from(serde_json::value::to_raw_value(&n).unwrap())).await;
				Ok::<(), jsonrpsee_core::SubscriptionError>(())
			}
		})
		.unwrap();
	}
	{
		// a subscription whose handler rejects the call with an error object carrying n bytes of data: [n]
		let log = log.clone();
		m.register_subscription("rsub", "rnotif", "runsub", move |p, pending, _, ext| {
			let log = log.clone();
			async move {
				log_invocation(&log, &ext, "rsub", &p);
				let n: usize = p.one().unwrap_or(0);
				pending.reject(ErrorObjectOwned::owned(-32053, "rejected", Some("d".repeat(n)))).await;
				Ok::<(), jsonrpsee_core::SubscriptionError>(())
			}
		})
		.unwrap();
	}
	{
		let (log, subs) = (log.clone(), subs.clone());
		m.register_subscription("sub", "notif", "unsub", move |p, pending, _, ext| {
			let (log, subs) = (log.clone(), subs.clone());
			async move {
				log_invocation(&log, &ext, "sub", &p);
				if auto_sub {
					// simple mode: accept, send the params back as one item, finish
					let sink = pending.accept().await?;
					let n: u64 = p.one().unwrap_or(0);
					let _ = sink.send(SubscriptionMessage::from(serde_json::value::to_raw_value(&n).unwrap())).await;
					return Ok::<(), jsonrpsee_core::SubscriptionError>(());
				}
				run_controlled_sub(p, pending, ext, subs).await
			}
		})
		.unwrap();
	}
	m
}

fn raw(n: u64) -> SubscriptionMessage {
	SubscriptionMessage::from(serde_json::value::to_raw_value(&n).unwrap())
}

struct SubState {
	ctl: Arc<SubCtl>,
	rx: mpsc::UnboundedReceiver<SubCmd>,
	pending: Option<PendingSubscriptionSink>,
	sink: Option<SubscriptionSink>,
	clones: Vec<SubscriptionSink>,
}

enum LoopEnd {
	Return(Result<(), jsonrpsee_core::SubscriptionError>),
	/// the callback returns now; a worker task keeps the sinks and goes on obeying commands
	Detach(SubState),
}

fn sub_ev(ctl: &SubCtl, invoked: u64, what: &str, ok: bool, payload: Option<u64>) {
	let returned = rt::event("sub-op", format!("{} {what} ok={ok} payload={payload:?}", ctl.sub_id));
	ctl.events.lock().unwrap().push(SubEvent { invoked, returned, what: what.to_string(), ok, payload });
}

async fn run_controlled_sub(p: Params<'static>, pending: PendingSubscriptionSink, ext: Extensions, subs: SubRegistry) -> Result<(), jsonrpsee_core::SubscriptionError> {
	let (tx, rx) = mpsc::unbounded_channel();
	let ctl = Arc::new(SubCtl {
		conn: conn_of(&ext),
		sub_id: serde_json::to_string(&pending.subscription_id()).unwrap(),
		params: p.as_str().map(|s| s.to_string()),
		started: rt::now_stamp(),
		cmd: tx,
		events: Arc::default(),
		finished: Arc::default(),
		released: Arc::default(),
	});
	subs.lock().unwrap().push(ctl.clone());
	let st = SubState { ctl: ctl.clone(), rx, pending: Some(pending), sink: None, clones: Vec::new() };
	match sub_loop(st, false).await {
		LoopEnd::Return(r) => r,
		LoopEnd::Detach(st) => {
			rt::probe("sub_handler_detached");
			rt::spawn("sub-worker", async move {
				let _ = sub_loop(st, true).await;
			});
			*ctl.finished.lock().unwrap() = Some(rt::event("sub-handler-returned-sinks-kept", ctl.sub_id.clone()));
			Ok(())
		}
	}
}

async fn sub_loop(mut st: SubState, detached: bool) -> LoopEnd {
	let ctl = st.ctl.clone();
	let ev = sub_ev;
	let mut ret = Ok(());
	while let Some(cmd) = st.rx.recv().await {
		let inv = rt::event("sub-cmd", format!("{} {cmd:?}", ctl.sub_id));
		let SubState { pending, sink, clones, .. } = &mut st;
		match cmd {
			SubCmd::Detach => {
				if !detached && (sink.is_some() || !clones.is_empty()) {
					ev(&ctl, inv, "detach", true, None);
					return LoopEnd::Detach(st);
				}
			}
			SubCmd::Accept => {
				if let Some(p) = pending.take() {
					match p.accept().await {
						Ok(s) => {
							*sink = Some(s);
							ev(&ctl, inv, "accept", true, None);
						}
						Err(_) => {
							ev(&ctl, inv, "accept", false, None);
							*ctl.released.lock().unwrap() = Some(rt::now_stamp());
						}
					}
				}
			}
			SubCmd::AcceptTimeout(ms) => {
				if let Some(p) = pending.take() {
					// (in a run with preemption points the pause inside `accept()` is a place where no real future can
					// be dropped - it stands for a descheduled thread - so the time limit is far away there)
					let ms = if rt::param("preempt").is_some() { 3_600_000 } else { ms };
					match tokio::time::timeout(Duration::from_millis(ms), p.accept()).await {
						Ok(Ok(s)) => {
							*sink = Some(s);
							ev(&ctl, inv, "accept", true, None);
						}
						Ok(Err(_)) => {
							ev(&ctl, inv, "accept", false, None);
							*ctl.released.lock().unwrap() = Some(rt::now_stamp());
						}
						Err(_) => {
							rt::probe("accept_abandoned");
							ev(&ctl, inv, "accept-abandoned", false, None);
							*ctl.released.lock().unwrap() = Some(rt::now_stamp());
						}
					}
				}
			}
			SubCmd::Reject => {
				if let Some(p) = pending.take() {
					p.reject(ErrorObjectOwned::owned(-32077, "rejected by handler", None::<()>)).await;
					ev(&ctl, inv, "reject", true, None);
					*ctl.released.lock().unwrap() = Some(rt::now_stamp());
				}
			}
			SubCmd::DropPending => {
				if let Some(p) = pending.take() {
					drop(p);
					ev(&ctl, inv, "drop-pending", true, None);
					*ctl.released.lock().unwrap() = Some(rt::now_stamp());
				}
				break;
			}
			SubCmd::Send(n) => {
				if let Some(s) = &sink {
					let r = s.send(raw(n)).await;
					ev(&ctl, inv, "send", r.is_ok(), Some(n));
				}
			}
			SubCmd::TrySend(n) => {
				if let Some(s) = sink.as_mut() {
					let mut r = s.try_send(raw(n));
					// a handler may try again later with the message it got back
					if let Err(jsonrpsee_core::server::TrySendError::Full(m)) = r {
						rt::probe("try_send_full_retried");
						tokio::time::sleep(Duration::from_millis(3)).await;
						r = s.try_send(m);
					}
					ev(&ctl, inv, "try_send", r.is_ok(), Some(n));
				}
			}
			SubCmd::SendTimeout(n, ms) => {
				if let Some(s) = &sink {
					let mut r = s.send_timeout(raw(n), Duration::from_millis(ms)).await;
					if let Err(jsonrpsee_core::server::SendTimeoutError::Timeout(m)) = r {
						rt::probe("send_timeout_retried");
						r = s.send_timeout(m, Duration::from_millis(40)).await;
					}
					ev(&ctl, inv, "send_timeout", r.is_ok(), Some(n));
				}
			}
			SubCmd::CloneSink => {
				if let Some(s) = &sink {
					clones.push(s.clone());
					ev(&ctl, inv, "clone", true, None);
				}
			}
			SubCmd::DropClone => {
				if let Some(c) = clones.pop() {
					drop(c);
					ev(&ctl, inv, "drop-clone", true, None);
				}
			}
			SubCmd::CheckClosed => {
				if let Some(s) = &sink {
					let c = s.is_closed();
					ev(&ctl, inv, "is_closed", c, None);
				}
			}
			SubCmd::AwaitClosed(ms) => {
				if let Some(s) = &sink {
					let r = tokio::time::timeout(Duration::from_millis(ms), s.closed()).await;
					ev(&ctl, inv, "closed-future", r.is_ok(), None);
				}
			}
			SubCmd::Return(k) => {
				ret = match k {
					0 => Ok(()),
					_ => Err(jsonrpsee_core::SubscriptionError::from("handler-close".to_string())),
				};
				ev(&ctl, inv, "return", true, Some(k as u64));
				break;
			}
		}
	}
	let SubState { pending, sink, clones, .. } = st;
	let had_sink = sink.is_some() || !clones.is_empty() || pending.is_some();
	drop(clones);
	drop(sink);
	drop(pending);
	let stamp = rt::event(if detached { "sub-worker-finished" } else { "sub-handler-finished" }, ctl.sub_id.clone());
	if had_sink {
		*ctl.released.lock().unwrap() = Some(stamp);
	}
	if !detached {
		*ctl.finished.lock().unwrap() = Some(stamp);
	}
	LoopEnd::Return(ret)
}

// ------------------------------------------------------------------------------------------------
// stamping middleware

#[derive(Clone)]
pub struct Stamp<S> {
	inner: S,
	log: Log,
	conn: Arc<AtomicU64>,
}

#[derive(Clone)]
pub struct StampLayer(pub Log);

impl<S> tower::Layer<S> for StampLayer {
	type Service = Stamp<S>;
	fn layer(&self, inner: S) -> Stamp<S> {
		Stamp { inner, log: self.0.clone(), conn: Arc::new(AtomicU64::new(u64::MAX)) }
	}
}

impl<S> RpcServiceT for Stamp<S>
where
	S: RpcServiceT<MethodResponse = MethodResponse, BatchResponse = MethodResponse, NotificationResponse = MethodResponse> + Send + Sync + Clone + 'static,
{
	type MethodResponse = MethodResponse;
	type NotificationResponse = MethodResponse;
	type BatchResponse = MethodResponse;

	fn call<'a>(&self, req: Request<'a>) -> impl Future<Output = MethodResponse> + Send + 'a {
		let (inner, log) = (self.inner.clone(), self.log.clone());
		async move {
			let conn = conn_of(req.extensions());
			let (method, id) = (req.method_name().to_string(), serde_json::to_string(&req.id).unwrap());
			let st = rt::event("mw-call-start", format!("conn={conn} {method} id={id}"));
			log.lock().unwrap().mw.push(MwEvent { stamp: st, conn, kind: "call-start", method: method.clone(), id: id.clone(), response: None });
			let rp = inner.call(req).await;
			let json = rp.as_json().get().to_string();
			let st = rt::event("mw-call-end", format!("conn={conn} {method} id={id} -> {json}"));
			log.lock().unwrap().mw.push(MwEvent { stamp: st, conn, kind: "call-end", method, id, response: Some(json) });
			rp
		}
	}

	fn batch<'a>(&self, batch: Batch<'a>) -> impl Future<Output = MethodResponse> + Send + 'a {
		// delegate entry by entry through `self.call` would bypass the library's batch assembly; forward as is
		let (inner, log) = (self.inner.clone(), self.log.clone());
		async move {
			let st = rt::event("mw-batch-start", format!("len={}", batch.len()));
			log.lock().unwrap().mw.push(MwEvent { stamp: st, conn: usize::MAX, kind: "batch-start", method: String::new(), id: String::new(), response: None });
			let rp = inner.batch(batch).await;
			let json = rp.as_json().get().to_string();
			let st = rt::event("mw-batch-end", &json);
			log.lock().unwrap().mw.push(MwEvent { stamp: st, conn: usize::MAX, kind: "batch-end", method: String::new(), id: String::new(), response: Some(json) });
			rp
		}
	}

	fn notification<'a>(&self, n: Notification<'a>) -> impl Future<Output = MethodResponse> + Send + 'a {
		let (inner, log) = (self.inner.clone(), self.log.clone());
		async move {
			let conn = conn_of(n.extensions());
			let st = rt::event("mw-notif", format!("conn={conn} {}", n.method_name()));
			log.lock().unwrap().mw.push(MwEvent { stamp: st, conn, kind: "notif", method: n.method_name().to_string(), id: String::new(), response: None });
			inner.notification(n).await
		}
	}
}

// ------------------------------------------------------------------------------------------------
// world

#[derive(Debug, Clone, Copy, PartialEq)]
pub enum Entry {
	/// `TowerService` built per connection + `serve_with_graceful_shutdown`
	Tower,
	/// low-level `ws::connect` / `http::call_with_service_builder` under a `tower::service_fn`
	LowLevel,
	/// `Server::start` with its own accept loop on the simulated listener (hook H4)
	Default,
}

#[derive(Debug, Clone)]
pub struct SrvCfg {
	pub entry: Entry,
	pub max_req: u32,
	pub max_resp: u32,
	pub max_conns: u32,
	pub max_subs: u32,
	pub batch: BatchRequestConfig,
	pub buf_cap: u32,
	pub frag: Frag,
	pub auto_sub: bool,
	/// WebSocket pings every second, inactivity limit 2 s, one failure (hook H6 puts the inactivity clock on the
	/// virtual clock)
	pub ping: bool,
}

impl Default for SrvCfg {
	fn default() -> Self {
		SrvCfg {
			entry: Entry::Tower,
			max_req: 10 * 1024 * 1024,
			max_resp: 10 * 1024 * 1024,
			max_conns: 100,
			max_subs: 1024,
			batch: BatchRequestConfig::Unlimited,
			buf_cap: 1024,
			frag: Frag::default(),
			auto_sub: true,
			ping: false,
		}
	}
}

type Mw = tower::layer::util::Stack<StampLayer, tower::layer::util::Identity>;

pub struct World {
	pub cfg: SrvCfg,
	pub log: Log,
	pub subs: SubRegistry,
	pub ids: Arc<ScriptedIds>,
	pub methods: Methods,
	pub server_cfg: ServerConfig,
	svc_builder: TowerServiceBuilder<Mw, tower::layer::util::Identity>,
	pub stop_handle: Option<StopHandle>,
	pub server_handle: Option<ServerHandle>,
	pub conn_guard: ConnectionGuard,
	ll_conn_id: Arc<AtomicU32>,
	pub conns: Vec<(Ctl, tokio::task::JoinHandle<()>)>,
	listener: Option<usize>,
	hang_tx: tokio::sync::watch::Sender<bool>,
}

impl World {
	pub fn new(cfg: SrvCfg) -> World {
		let log: Log = Arc::default();
		let subs: SubRegistry = Arc::default();
		let ids = Arc::new(ScriptedIds::default());
		let (hang_tx, hang_rx) = tokio::sync::watch::channel(false);
		let module = build_module(log.clone(), subs.clone(), cfg.auto_sub, hang_rx);
		let mut b = ServerConfig::builder();
		if cfg.ping {
			b = b.enable_ws_ping(jsonrpsee_server::PingConfig::new().ping_interval(Duration::from_secs(1)).inactive_limit(Duration::from_secs(2)).max_failures(1));
		}
		let server_cfg = b
			.max_request_body_size(cfg.max_req)
			.max_response_body_size(cfg.max_resp)
			.max_connections(cfg.max_conns)
			.max_subscriptions_per_connection(cfg.max_subs)
			.set_batch_request_config(cfg.batch)
			.set_message_buffer_capacity(cfg.buf_cap)
			.set_id_provider(IdsHandle(ids.clone()))
			.build();
		let rpc_mw = RpcServiceBuilder::new().layer(StampLayer(log.clone()));
		let svc_builder = jsonrpsee_server::Server::builder().set_config(server_cfg.clone()).set_rpc_middleware(rpc_mw).to_service_builder();
		let (stop_handle, server_handle) = stop_channel();
		World {
			conn_guard: ConnectionGuard::new(cfg.max_conns as usize),
			cfg,
			log,
			subs,
			ids,
			methods: module.into(),
			server_cfg,
			svc_builder,
			stop_handle: Some(stop_handle),
			server_handle: Some(server_handle),
			ll_conn_id: Arc::default(),
			conns: Vec::new(),
			listener: None,
			hang_tx,
		}
	}

	/// For `Entry::Default`: build and start the real server on the simulated listener.
	pub async fn start(&mut self) {
		if self.cfg.entry != Entry::Default {
			return;
		}
		let rpc_mw = RpcServiceBuilder::new().layer(StampLayer(self.log.clone()));
		let server = jsonrpsee_server::Server::builder().set_config(self.server_cfg.clone()).set_rpc_middleware(rpc_mw).build("127.0.0.1:0").await.expect("simulated bind");
		self.listener = Some(jsonrpsee_core::verif::net::listeners() - 1);
		let handle = server.start(self.methods.clone());
		// the harness-made stop channel is not used by the default server
		self.stop_handle = None;
		self.server_handle = Some(handle);
	}

	/// Let every `hang` call finish.
	pub fn release_hangs(&self) {
		rt::event("release-hangs", "");
		let _ = self.hang_tx.send(true);
	}

	/// A new simulated TCP connection to the server; returns the peer's end.
	pub fn connect(&mut self, label: &str) -> (End, Ctl) {
		let (a, ctl, _) = self.connect_inner(label, false);
		(a, ctl)
	}

	/// Like `connect`, but the connection gets a stop channel of its own (as in the library's low-level examples),
	/// so that the server side can close this one connection gracefully. Not for `Entry::Default`.
	pub fn connect_own_stop(&mut self, label: &str) -> (End, Ctl, ServerHandle) {
		assert!(self.cfg.entry != Entry::Default);
		let (a, ctl, h) = self.connect_inner(label, true);
		(a, ctl, h.expect("own stop channel"))
	}

	fn connect_inner(&mut self, label: &str, own_stop: bool) -> (End, Ctl, Option<ServerHandle>) {
		let (a, b, ctl) = stream::pair(label, self.cfg.frag);
		if self.cfg.entry == Entry::Default {
			let k = self.listener.expect("World::start() must be awaited first");
			let addr = std::net::SocketAddr::from(([127, 0, 0, 1], 40000 + self.conns.len() as u16));
			rt::event("tcp-connect", label);
			let _ = jsonrpsee_core::verif::net::incoming(k, Ok((jsonrpsee_core::verif::net::TcpStream::new(b), addr)));
			let h = rt::spawn("noop", async {});
			self.conns.push((ctl.clone(), h));
			return (a, ctl, None);
		}
		let (stop_handle, own_handle) = if own_stop {
			let (s, h) = stop_channel();
			(s, Some(h))
		} else {
			(self.stop_handle.clone().expect("server not stopped"), None)
		};
		let h = match self.cfg.entry {
			Entry::Default => unreachable!(),
			Entry::Tower => {
				// (a hand-assembled server may configure the clone it makes for each connection: the limits stay those of
				// the server)
				let builder = if rt::chance("per_connection_http_middleware", 1, 2) { self.svc_builder.clone().set_http_middleware(tower::ServiceBuilder::new()) } else { self.svc_builder.clone() };
				let svc = builder.build(self.methods.clone(), stop_handle.clone());
				rt::spawn("conn", async move {
					let _ = jsonrpsee_server::serve_with_graceful_shutdown(b, svc, stop_handle.shutdown()).await;
					rt::event("conn-task-finished", "");
				})
			}
			Entry::LowLevel => {
				let (methods, server_cfg, guard, ids, log) = (self.methods.clone(), self.server_cfg.clone(), self.conn_guard.clone(), self.ll_conn_id.clone(), self.log.clone());
				let sh = stop_handle.clone();
				let svc = tower::service_fn(move |req: HttpRequest<hyper::body::Incoming>| {
					let (methods, server_cfg, guard, ids, log, stop_handle) = (methods.clone(), server_cfg.clone(), guard.clone(), ids.clone(), log.clone(), sh.clone());
					async move {
						let Some(permit) = guard.try_acquire() else {
							return Ok::<_, std::convert::Infallible>(jsonrpsee_server::http::response::too_many_requests());
						};
						let conn_id = ids.fetch_add(1, Ordering::Relaxed);
						let conn = ConnectionState::new(stop_handle, conn_id, permit);
						let rpc_mw = RpcServiceBuilder::new().layer(StampLayer(log));
						let mut req = req.map(HttpBody::new);
						req.extensions_mut().insert::<ConnectionId>(conn_id.into());
						req.extensions_mut().insert::<ConnectionGuard>(guard.clone());
						if jsonrpsee_server::ws::is_upgrade_request(&req) {
							match jsonrpsee_server::ws::connect(req, server_cfg, methods, conn, rpc_mw).await {
								Ok((rp, fut)) => {
									rt::spawn("ll-ws", fut);
									Ok(rp)
								}
								Err(rp) => Ok(rp),
							}
						} else {
							Ok(jsonrpsee_server::http::call_with_service_builder(req, server_cfg, conn, methods, rpc_mw).await)
						}
					}
				});
				rt::spawn("conn", async move {
					let _ = jsonrpsee_server::serve_with_graceful_shutdown(b, svc, stop_handle.shutdown()).await;
					rt::event("conn-task-finished", "");
				})
			}
		};
		self.conns.push((ctl.clone(), h));
		(a, ctl, own_handle)
	}

	/// Call the tower service directly with a request (no hyper, no stream): the "HTTP transport" of jsonrpsee
	/// starts here.
	pub fn tower_call<B>(&self, req: http::Request<B>) -> impl Future<Output = HttpResponse> + Send + 'static
	where
		B: http_body::Body<Data = bytes::Bytes> + Send + 'static,
		B::Error: Into<jsonrpsee_core::BoxError>,
	{
		let (stop_handle, _keep) = match self.stop_handle.clone() {
			Some(s) => (s, None),
			None => {
				// default server: direct tower calls use a service of their own
				let (s, h) = stop_channel();
				(s, Some(h))
			}
		};
		let mut svc = self.svc_builder.clone().build(self.methods.clone(), stop_handle);
		async move {
			let _keep = _keep;
			tower::Service::call(&mut svc, req).await.expect("tower service is infallible")
		}
	}

	pub fn drop_stop_handle(&mut self) {
		self.stop_handle = None;
	}
}

// ------------------------------------------------------------------------------------------------
// peers

pub type WsTx = soketto::Sender<BufReader<BufWriter<tokio_util::compat::Compat<End>>>>;
pub type WsRx = soketto::Receiver<BufReader<BufWriter<tokio_util::compat::Compat<End>>>>;

pub enum WsOpen {
	Open(WsTx, WsRx),
	Rejected(u16),
	Failed(String),
}

pub async fn ws_handshake(end: End) -> WsOpen {
	let io = BufReader::new(BufWriter::new(end.compat()));
	let mut client = soketto::handshake::Client::new(io, "sim.invalid", "/");
	match client.handshake().await {
		Ok(soketto::handshake::ServerResponse::Accepted { .. }) => {
			let (tx, rx) = client.into_builder().finish();
			WsOpen::Open(tx, rx)
		}
		Ok(soketto::handshake::ServerResponse::Rejected { status_code }) => WsOpen::Rejected(status_code),
		Ok(soketto::handshake::ServerResponse::Redirect { status_code, .. }) => WsOpen::Rejected(status_code),
		Err(e) => WsOpen::Failed(e.to_string()),
	}
}

pub async fn ws_send(tx: &mut WsTx, msg: &[u8], binary: bool) -> Result<(), String> {
	let r = if binary {
		tx.send_binary(msg).await
	} else {
		match std::str::from_utf8(msg) {
			Ok(s) => tx.send_text(s).await,
			Err(_) => tx.send_binary(msg).await,
		}
	};
	r.map_err(|e| e.to_string())?;
	tx.flush().await.map_err(|e| e.to_string())
}

/// Next data frame; `None` when the connection is closed.
pub async fn ws_recv(rx: &mut WsRx) -> Option<Vec<u8>> {
	let mut buf = Vec::new();
	match rx.receive_data(&mut buf).await {
		Ok(_) => Some(buf),
		Err(_) => None,
	}
}

/// HTTP/1.1 over a SimStream with hyper's client connection.
pub struct HttpPeer {
	pub sender: hyper::client::conn::http1::SendRequest<http_body_util::Full<bytes::Bytes>>,
	pub conn: tokio::task::JoinHandle<()>,
}

pub async fn http_handshake(end: End) -> Result<HttpPeer, String> {
	let io = hyper_util::rt::TokioIo::new(end);
	let (sender, conn) = hyper::client::conn::http1::handshake(io).await.map_err(|e| e.to_string())?;
	let conn = rt::spawn("http-peer-conn", async move {
		let _ = conn.await;
	});
	Ok(HttpPeer { sender, conn })
}

#[derive(Debug, Clone)]
pub struct HttpReply {
	pub status: u16,
	pub body: Vec<u8>,
}

impl HttpPeer {
	pub async fn post(&mut self, body: Vec<u8>, content_type: Option<&str>) -> Result<HttpReply, String> {
		let mut b = http::Request::builder().method("POST").uri("/").header("host", "sim.invalid");
		if let Some(ct) = content_type {
			b = b.header("content-type", ct);
		}
		let req = b.body(http_body_util::Full::new(bytes::Bytes::from(body))).unwrap();
		self.sender.ready().await.map_err(|e| e.to_string())?;
		let rp = self.sender.send_request(req).await.map_err(|e| e.to_string())?;
		let status = rp.status().as_u16();
		use http_body_util::BodyExt;
		let body = rp.into_body().collect().await.map_err(|e| e.to_string())?.to_bytes().to_vec();
		Ok(HttpReply { status, body })
	}
}

pub async fn collect_response(rp: HttpResponse) -> HttpReply {
	use http_body_util::BodyExt;
	let status = rp.status().as_u16();
	let body = rp.into_body().collect().await.map(|b| b.to_bytes().to_vec()).unwrap_or_default();
	HttpReply { status, body }
}

pub fn post_request(body: Vec<u8>) -> http::Request<http_body_util::Full<bytes::Bytes>> {
	http::Request::builder()
		.method("POST")
		.uri("/")
		.header("host", "sim.invalid")
		.header("content-type", "application/json")
		.header("content-length", body.len().to_string())
		.body(http_body_util::Full::new(bytes::Bytes::from(body)))
		.unwrap()
}


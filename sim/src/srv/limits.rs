//! C07 — requests above max_request_body_size are never processed, on any path.
//! C08 — no response payload above max_response_body_size is ever sent.
//!
//! Per run both limits are drawn independently from a grid and TWO servers are built that differ only in the
//! *other* limit; the same message list goes to both, over WebSocket (pipelined single frames) and over HTTP
//! (Content-Length, frame stream without length, hyper with chunked encoding), for both server assemblies. The
//! boundary workload (sizes limit-2..limit+2, 2x, 10x) is seeded generation; what simulation adds is the pipelining
//! next to normal traffic, the entry points, fragmentation and a wire-length monitor on every reply path.

use std::sync::{Arc, Mutex};
use std::time::Duration;

use serde_json::{Value, json};

use super::httpframing::ScriptBody;
use super::model::parse_response;
use super::stream::Frag;
use super::world::{self, Entry, SrvCfg, World, WsOpen, blob_string};
use crate::rt;

const GRID: [u32; 6] = [64, 100, 256, 1000, 4096, 65536];

/// A call to `len` whose total message size is exactly `size` bytes (if possible).
fn len_call(id: u64, size: usize) -> Vec<u8> {
	let base = format!("{{\"jsonrpc\":\"2.0\",\"id\":{id},\"method\":\"len\",\"params\":[\"\"]}}");
	let pad = size.saturating_sub(base.len());
	format!("{{\"jsonrpc\":\"2.0\",\"id\":{id},\"method\":\"len\",\"params\":[\"{}\"]}}", "a".repeat(pad)).into_bytes()
}

#[derive(Debug, Clone, PartialEq)]
enum Outcome {
	/// processed: JSON result value
	Result(Value),
	/// JSON-RPC error code
	Error(i64),
	/// HTTP status >= 400 (with the JSON-RPC code of the body, if any)
	HttpError(u16),
	None,
}

async fn ws_exchange(world: &mut World, label: &str, msgs: Vec<Vec<u8>>, clog: bool) -> (Vec<Vec<u8>>, bool) {
	let (end, _ctl) = world.connect(label);
	let frames: Arc<Mutex<Vec<Vec<u8>>>> = Arc::default();
	let (mut tx, mut rx) = match world::ws_handshake(end).await {
		WsOpen::Open(tx, rx) => (tx, rx),
		_ => return (vec![], false),
	};
	let f2 = frames.clone();
	// clog: the peer does not read until it has sent everything, so the server's write path fills up
	let hold = Arc::new(std::sync::atomic::AtomicBool::new(clog));
	let h2 = hold.clone();
	let reader = rt::spawn("ws-reader", async move {
		while h2.load(std::sync::atomic::Ordering::Relaxed) {
			tokio::time::sleep(Duration::from_millis(2)).await;
		}
		while let Some(f) = world::ws_recv(&mut rx).await {
			rt::event("ws-frame", format!("{} bytes: {}", f.len(), String::from_utf8_lossy(&f).chars().take(160).collect::<String>()));
			f2.lock().unwrap().push(f);
		}
	});
	let mut alive = true;
	if clog {
		// the peer starts reading only once everything is stuck (virtual time advances only when nothing can run)
		let h3 = hold.clone();
		rt::spawn("clog-release", async move {
			tokio::time::sleep(Duration::from_millis(30)).await;
			rt::event("peer-starts-reading", "");
			rt::probe("clogged_then_released");
			h3.store(false, std::sync::atomic::Ordering::Relaxed);
		});
	}
	for m in &msgs {
		rt::yield_n(rt::draw("think", 3)).await;
		rt::event("ws-send", format!("{} bytes: {}", m.len(), String::from_utf8_lossy(m).chars().take(120).collect::<String>()));
		if world::ws_send(&mut tx, m, false).await.is_err() {
			alive = false;
			break;
		}
	}
	rt::quiesce().await;
	let _ = tx.close().await;
	drop(tx);
	let _ = tokio::time::timeout(Duration::from_secs(5), reader).await;
	let f = frames.lock().unwrap().clone();
	(f, alive)
}

fn outcome_by_id(frames: &[Vec<u8>], id: u64) -> Outcome {
	for f in frames {
		if let Ok((i, out)) = parse_response(f) {
			if i == json!(id) {
				return match out {
					Ok(v) => Outcome::Result(v),
					Err(c) => Outcome::Error(c),
				};
			}
		}
	}
	Outcome::None
}

// ------------------------------------------------------------------------------------------------
// C07

pub async fn scenario_c07() {
	const P: &str = "C07";
	let req_limit = *rt::pick("req_limit", &GRID);
	let resp_a = *rt::pick("resp_a", &GRID);
	let mut resp_b = *rt::pick("resp_b", &GRID);
	if resp_b == resp_a {
		resp_b = GRID[(GRID.iter().position(|g| *g == resp_a).unwrap() + 1 + rt::draw("resp_shift", 5) as usize) % GRID.len()];
	}
	let entry = *rt::pick("entry", &[Entry::Tower, Entry::LowLevel, Entry::Default]);
	let clog = rt::chance("clog", 1, 4);
	let frag = if clog { Frag { short: false, latency_ms: 0, cap: 64 } } else if rt::chance("frag", 1, 3) { Frag { short: true, latency_ms: 2, cap: 0 } } else { Frag::default() };
	let req_limit = if clog { req_limit.min(1000) } else { req_limit };
	// sizes around the limit
	let l = req_limit as usize;
	let mut sizes: Vec<usize> = Vec::new();
	for _ in 0..rt::draw_range("n_msgs", 2, 6) {
		sizes.push(match rt::draw("size_kind", 8) {
			0 => l - 1,
			1 | 2 => l,
			3 | 4 => l + 1,
			5 => 2 * l,
			6 if !clog => (10 * l).min(700_000),
			_ => 60,
		});
	}
	let msgs: Vec<(u64, Vec<u8>)> = sizes.iter().enumerate().map(|(i, s)| (i as u64 + 1, len_call(i as u64 + 1, *s))).collect();
	rt::event("plan", format!("req_limit={req_limit} resp_limits=({resp_a},{resp_b}) entry={entry:?} frag={frag:?} sizes={:?}", msgs.iter().map(|m| m.1.len()).collect::<Vec<_>>()));
	let mut per_world: Vec<Vec<(Outcome, Outcome)>> = Vec::new();
	let mut nontrivial = false;
	for (wi, resp) in [resp_a, resp_b].into_iter().enumerate() {
		let mut world = World::new(SrvCfg { entry, frag, max_req: req_limit, max_resp: resp, buf_cap: if clog { 1 } else { 1024 }, ..Default::default() });
		world.start().await;
		// --- WebSocket: everything pipelined on one connection, then a sentinel ---
		let mut list: Vec<Vec<u8>> = msgs.iter().map(|m| m.1.clone()).collect();
		list.push(len_call(999, 60));
		let (frames, alive) = ws_exchange(&mut world, &format!("w{wi}"), list, clog).await;
		// --- HTTP: one POST each, three body framings ---
		let mut outs = Vec::new();
		for (id, m) in &msgs {
			let over = m.len() > l;
			let ws_out = outcome_by_id(&frames, *id);
			let framing = rt::draw("http_framing", 5);
			let rep = match framing {
				0 => world::collect_response(world.tower_call(world::post_request(m.clone())).await).await,
				1 => {
					// no Content-Length, body as frames
					let cut = rt::draw("cut", m.len() as u32 + 1) as usize;
					let body = ScriptBody::new(vec![(m[..cut].to_vec(), 1), (m[cut..].to_vec(), 0)], None);
					let req = http::Request::builder().method("POST").uri("/").header("host", "sim.invalid").header("content-type", "application/json").body(body).unwrap();
					world::collect_response(world.tower_call(req).await).await
				}
				4 => {
					// a buffered body of known size (exact size hint) without a Content-Length header, as an in-process
					// caller or a body-rewriting middleware produces it
					rt::probe("buffered_body_without_content_length");
					let req = http::Request::builder().method("POST").uri("/").header("host", "sim.invalid").header("content-type", "application/json").body(http_body_util::Full::new(bytes::Bytes::from(m.clone()))).unwrap();
					world::collect_response(world.tower_call(req).await).await
				}
				3 => {
					// a Content-Length header that understates the body (possible when the tower service is driven
					// directly or sits behind middleware that rewrites bodies): the bytes that arrive are what counts
					rt::probe("lying_content_length");
					let claimed = match rt::draw("claimed_len", 3) {
						0 => 1,
						1 => l.min(m.len()).saturating_sub(1),
						_ => l.min(m.len()),
					};
					let cut = rt::draw("cut", m.len() as u32 + 1) as usize;
					let body = ScriptBody::new(vec![(m[..cut].to_vec(), 1), (m[cut..].to_vec(), 0)], None);
					let req = http::Request::builder().method("POST").uri("/").header("host", "sim.invalid").header("content-type", "application/json").header("content-length", claimed.to_string()).body(body).unwrap();
					world::collect_response(world.tower_call(req).await).await
				}
				_ => {
					let (end, _c) = world.connect(&format!("h{wi}-{id}"));
					match world::http_handshake(end).await {
						Ok(mut p) => p.post(m.clone(), Some("application/json")).await.unwrap_or(world::HttpReply { status: 599, body: vec![] }),
						Err(_) => world::HttpReply { status: 599, body: vec![] },
					}
				}
			};
			let http_out = if rep.status >= 400 {
				Outcome::HttpError(rep.status)
			} else {
				match parse_response(&rep.body) {
					Ok((_, Ok(v))) => Outcome::Result(v),
					Ok((_, Err(c))) => Outcome::Error(c),
					Err(_) => Outcome::None,
				}
			};
			rt::event("outcomes", format!("id={id} size={} over={over} ws={ws_out:?} http={http_out:?} (framing {framing})", m.len()));
			let want = Outcome::Result(json!(m.len() - len_call(*id, 0).len() + 4)); // params text: ["aaa"] = pad + 4
			if over {
				nontrivial = true;
				if http_out != Outcome::HttpError(413) && !matches!(http_out, Outcome::HttpError(_)) {
					rt::violate(P, "oversize-processed", format!("http:{entry:?}"), format!("a {}-byte POST (limit {req_limit}, framing {framing}) was answered {http_out:?} instead of an HTTP error status", m.len()));
				}
				// the reply to an oversized frame carries id null, so it cannot be attributed by id: counted below
				if ws_out != Outcome::None {
					rt::violate(P, "oversize-processed", format!("ws:{entry:?}"), format!("a {}-byte WebSocket message (limit {req_limit}, response limit {resp}) was processed: {ws_out:?}", m.len()));
				}
			} else {
				// (a body that is longer than its header claims may also be refused outright)
				let lying_refused = framing == 3 && matches!(http_out, Outcome::HttpError(_));
				if http_out != want && http_out != Outcome::HttpError(599) && !lying_refused {
					rt::violate(P, "within-limit-not-processed", format!("http:{entry:?}"), format!("a {}-byte POST (limit {req_limit}, response limit {resp}, framing {framing}) was answered {http_out:?}, expected {want:?}", m.len()));
				}
				if alive && ws_out != want {
					rt::violate(P, "within-limit-not-processed", format!("ws:{entry:?}"), format!("a {}-byte WebSocket message (limit {req_limit}, response limit {resp}) was answered {ws_out:?}, expected {want:?}", m.len()));
				}
			}
			outs.push((ws_out, http_out));
		}
		// WebSocket: one -32007/null per oversized message, and the connection keeps serving
		let n_over = msgs.iter().filter(|m| m.1.len() > l).count();
		let n_rejects = frames.iter().filter(|f| matches!(parse_response(f), Ok((Value::Null, Err(-32007))))).count();
		if alive && n_rejects != n_over {
			rt::violate(P, "oversize-reject-count", format!("ws:{entry:?}"), format!("{n_over} oversized WebSocket messages (limit {req_limit}, response limit {resp}) but {n_rejects} 'request too big' replies"));
		}
		if outcome_by_id(&frames, 999) == Outcome::None {
			rt::violate(P, "connection-not-serving", format!("ws:{entry:?}"), format!("after oversized messages the WebSocket connection did not answer a later call (limit {req_limit}, response limit {resp})"));
		}
		// nothing oversized reached a handler
		{
			let log = world.log.lock().unwrap();
			for inv in &log.invocations {
				let plen = inv.params.as_ref().map(|p| p.len()).unwrap_or(0);
				if plen + len_call(1, 0).len() - 4 > l {
					rt::violate(P, "oversize-reached-handler", format!("{entry:?}"), format!("handler {} ran with {plen} bytes of params although the request limit is {req_limit}", inv.method));
				}
			}
		}
		per_world.push(outs);
		world.drop_stop_handle();
	}
	// with server pings on (hook H6) a peer that never answers a ping stays alive through its messages alone: every
	// message counts as activity, the oversized one that is refused included
	if rt::chance("ping_timeline", 1, 6) {
		rt::probe("ping_timeline");
		let mut world = World::new(SrvCfg { entry, max_req: req_limit, max_resp: resp_a, ping: true, ..Default::default() });
		world.start().await;
		let (end, _ctl) = world.connect("wping");
		if let WsOpen::Open(mut tx, mut rx) = world::ws_handshake(end).await {
			// (the receiving half is not polled while the timeline runs, so no pong is ever sent)
			let gap = Duration::from_millis(*rt::pick("gap_ms", &[1200u64, 1500, 1800]));
			let mut sent_ok = true;
			for (k, m) in [len_call(1, 60), len_call(2, l + 1 + rt::draw("over_by", 50) as usize), len_call(3, 60)].iter().enumerate() {
				if k > 0 {
					tokio::time::sleep(gap).await;
				}
				rt::event("ws-send", format!("{} bytes", m.len()));
				sent_ok &= matches!(tokio::time::timeout(Duration::from_millis(200), world::ws_send(&mut tx, m, false)).await, Ok(Ok(())));
			}
			let mut frames: Vec<Vec<u8>> = Vec::new();
			while let Ok(Some(fr)) = tokio::time::timeout(Duration::from_millis(500), world::ws_recv(&mut rx)).await {
				frames.push(fr);
			}
			let rejects = frames.iter().filter(|fr| matches!(parse_response(fr), Ok((Value::Null, Err(-32007))))).count();
			if !sent_ok || outcome_by_id(&frames, 3) == Outcome::None || rejects != 1 || outcome_by_id(&frames, 1) == Outcome::None {
				rt::violate(P, "connection-not-serving", format!("ws:pings:{entry:?}"), format!("pings on, a peer that answers no ping but sends a call, an oversized message and a call {gap:?} apart (inactivity limit 2 s): sends ok={sent_ok}, {rejects} 'request too big' replies, first call {:?}, last call {:?}", outcome_by_id(&frames, 1), outcome_by_id(&frames, 3)));
			}
			drop(tx);
		}
		world.drop_stop_handle();
	}
	// behind the library's GET proxy the message that counts is the call the proxy generates, not whatever body (and
	// Content-Length) the GET request happened to carry
	if rt::chance("get_proxy", 1, 8) {
		rt::probe("get_proxy");
		let (stop, _handle) = jsonrpsee_server::stop_channel();
		let http_mw = tower::ServiceBuilder::new().layer(jsonrpsee_server::middleware::http::ProxyGetRequestLayer::new([("/health", "echo")]).expect("valid path"));
		let world = World::new(SrvCfg { entry, ..Default::default() });
		let mut svc = jsonrpsee_server::Server::builder()
			.set_config(jsonrpsee_server::ServerConfig::builder().max_request_body_size(100).build())
			.set_http_middleware(http_mw)
			.to_service_builder()
			.build(world.methods.clone(), stop);
		let n = *rt::pick("get_body_len", &[0usize, 50, 100, 101, 200]);
		let mut b = http::Request::builder().method("GET").uri("/health").header("host", "sim.invalid");
		if n > 0 || rt::chance("explicit_zero_length", 1, 2) {
			b = b.header("content-length", n.to_string());
		}
		let req = b.body(http_body_util::Full::new(bytes::Bytes::from(vec![b' '; n]))).unwrap();
		if let Ok(r) = tower::Service::call(&mut svc, req).await {
			let rep = world::collect_response(r).await;
			rt::event("get-proxy-reply", format!("body of {n} bytes -> {} {}", rep.status, String::from_utf8_lossy(&rep.body)));
			if rep.status != 200 {
				rt::violate(P, "within-limit-not-processed", "get-proxy:stale-content-length", format!("GET /health through the GET proxy (generated call of 49 bytes, limit 100) carrying a body of {n} bytes was answered {} instead of being processed", rep.status));
			}
		}
	}
	// the outcome depends only on the request limit
	for (i, (a, b)) in per_world[0].iter().zip(per_world[1].iter()).enumerate() {
		if a.0 != b.0 {
			rt::violate(P, "depends-on-response-limit", format!("ws:{entry:?}"), format!("message of {} bytes (request limit {req_limit}): {:?} with response limit {resp_a}, {:?} with response limit {resp_b}", msgs[i].1.len(), a.0, b.0));
		}
	}
	if nontrivial {
		rt::probe("nontrivial");
	}
	// (last in the scenario: tapes recorded before this sub-scenario existed keep their meaning)
	// a single frame whose header announces far more than any limit (2^28 + 1 bytes; only the header and the first
	// kilobyte are ever sent): the message is to be refused when it has arrived - the server must not hang up on the
	// header, it has no business closing a connection over the size of a message
	if rt::chance("huge_frame_header", 1, 8) {
		use futures_util::io::{AsyncReadExt, AsyncWriteExt};
		use tokio_util::compat::TokioAsyncReadCompatExt;
		rt::probe("huge_frame_header");
		let mut world = World::new(SrvCfg { entry, max_req: req_limit, max_resp: resp_a, ..Default::default() });
		world.start().await;
		let (end, _ctl) = world.connect("whuge");
		let mut io = end.compat();
		let req = "GET / HTTP/1.1\r\nhost: sim.invalid\r\nupgrade: websocket\r\nconnection: upgrade\r\nsec-websocket-key: dGhlIHNhbXBsZSBub25jZQ==\r\nsec-websocket-version: 13\r\n\r\n";
		let _ = io.write_all(req.as_bytes()).await;
		let _ = io.flush().await;
		// the 101 response
		let mut head = Vec::new();
		let mut byte = [0u8; 1];
		let upgraded = loop {
			match tokio::time::timeout(Duration::from_secs(2), io.read(&mut byte)).await {
				Ok(Ok(1)) => {
					head.push(byte[0]);
					if head.ends_with(b"\r\n\r\n") {
						break head.starts_with(b"HTTP/1.1 101");
					}
					if head.len() > 4096 {
						break false;
					}
				}
				_ => break false,
			}
		};
		if upgraded {
			// (client frames are masked; an all-zero key leaves the payload as it is)
			let frame = |payload: &[u8], announced: u64| -> Vec<u8> {
				let mut f = vec![0x81u8];
				if announced < 126 {
					f.push(0x80 | announced as u8);
				} else if announced < 65536 {
					f.push(0x80 | 126);
					f.extend_from_slice(&(announced as u16).to_be_bytes());
				} else {
					f.push(0x80 | 127);
					f.extend_from_slice(&announced.to_be_bytes());
				}
				f.extend_from_slice(&[0, 0, 0, 0]);
				f.extend_from_slice(payload);
				f
			};
			let call = len_call(1, 60);
			let _ = io.write_all(&frame(&call, call.len() as u64)).await;
			let announced = (1u64 << 28) + 1 + rt::draw("beyond", 3) as u64 * 1000;
			let _ = io.write_all(&frame(&vec![b' '; 1024], announced)).await;
			let _ = io.flush().await;
			// what the server sends within a second of virtual time
			let mut got = Vec::new();
			let mut buf = [0u8; 512];
			let mut eof = false;
			while let Ok(r) = tokio::time::timeout(Duration::from_secs(1), io.read(&mut buf)).await {
				match r {
					Ok(0) | Err(_) => {
						eof = true;
						break;
					}
					Ok(n) => got.extend_from_slice(&buf[..n]),
				}
			}
			// server frames are not masked: 0x81 len payload | 0x88 close
			let mut answered_first = false;
			let mut closed = eof;
			let mut i = 0;
			while i + 2 <= got.len() {
				let (op, l7) = (got[i] & 0x0f, (got[i + 1] & 0x7f) as usize);
				let (len, hdr) = if l7 == 126 && i + 4 <= got.len() { (u16::from_be_bytes([got[i + 2], got[i + 3]]) as usize, 4) } else { (l7, 2) };
				if op == 0x8 {
					closed = true;
				}
				if op == 0x1 && i + hdr + len <= got.len() && matches!(parse_response(&got[i + hdr..i + hdr + len]), Ok((id, Ok(_))) if id == json!(1)) {
					answered_first = true;
				}
				i += hdr + len;
			}
			rt::event("huge-frame", format!("announced={announced} answered_first={answered_first} closed={closed} bytes={}", got.len()));
			if closed {
				rt::violate(P, "connection-not-serving", format!("ws:huge-frame-header:{entry:?}"), format!("a frame whose header announces {announced} bytes (max_request_body_size {req_limit}) made the server close the connection on the spot (first call answered: {answered_first}) instead of refusing the message when it has arrived"));
			}
		}
		drop(io);
		world.drop_stop_handle();
	}
}

// ------------------------------------------------------------------------------------------------
// C08

fn response_len(id: u64, blob_json: &str) -> usize {
	format!("{{\"jsonrpc\":\"2.0\",\"id\":{id},\"result\":{blob_json}}}").len()
}

/// `blob` call whose serialized response has exactly `target` bytes (or as close as the content kind allows);
/// returns (message, expected response length, expected blob)
fn blob_call(id: u64, target: usize, kind: u64) -> (Vec<u8>, usize, String) {
	// search n
	let mut n = 0usize;
	loop {
		let b = blob_string(n, kind);
		let len = response_len(id, &serde_json::to_string(&b).unwrap());
		if len >= target || n > 80_000 {
			return (format!("{{\"jsonrpc\":\"2.0\",\"id\":{id},\"method\":\"blob\",\"params\":[{n},{kind}]}}").into_bytes(), len, b);
		}
		// jump
		n += ((target - len) / 4).max(1);
	}
}

pub async fn scenario_c08() {
	const P: &str = "C08";
	rt::expect_panic_marker(world::PANIC_MARKER);
	// (tiny limits: the reply `{"jsonrpc":"2.0","id":7,"result":false}` of an unsubscribe call is 39 bytes)
	let tiny = rt::chance("tiny_limit", 1, 6);
	let resp_limit = if tiny { *rt::pick("tiny_resp_limit", &[38u32, 39, 40]) } else { *rt::pick("resp_limit", &[256u32, 1000, 4096, 65536]) };
	let req_a = *rt::pick("req_a", &[1000u32, 4096, 65536]);
	let req_b = if req_a == 65536 { 4096 } else { 65536 };
	let entry = *rt::pick("entry", &[Entry::Tower, Entry::LowLevel, Entry::Default]);
	let frag = if rt::chance("frag", 1, 3) { Frag { short: true, latency_ms: 2, cap: 0 } } else { Frag::default() };
	let l = resp_limit as usize;
	// single calls around the limit
	let mut singles: Vec<(u64, Vec<u8>, usize, String, bool)> = Vec::new();
	let n_singles = rt::draw_range("n_singles", 1, 4);
	for i in 0..n_singles {
		let id = i as u64 + 1;
		let delta = rt::draw("delta", 7) as i64 - 3;
		let target = (l as i64 + delta) as usize;
		if !tiny && rt::chance("panic_result", 1, 8) {
			// a blocking handler that panics with a long message: the reply is the library's fixed "Internal error"
			let reply = format!("{{\"jsonrpc\":\"2.0\",\"id\":{id},\"error\":{{\"code\":-32603,\"message\":\"Internal error\"}}}}");
			singles.push((id, format!("{{\"jsonrpc\":\"2.0\",\"id\":{id},\"method\":\"bpanicn\",\"params\":[{}]}}", target).into_bytes(), reply.len(), "panic".to_string(), true));
		} else if rt::chance("error_message_result", 1, 8) {
			// a handler error without data whose bulk is its message
			let overhead = format!("{{\"jsonrpc\":\"2.0\",\"id\":{id},\"error\":{{\"code\":-32052,\"message\":\"\"}}}}").len();
			let n = target.saturating_sub(overhead);
			singles.push((id, format!("{{\"jsonrpc\":\"2.0\",\"id\":{id},\"method\":\"failmsg\",\"params\":[{n}]}}").into_bytes(), overhead + n, "failmsg".to_string(), true));
		} else if rt::chance("error_result", 1, 5) {
			// error result with data
			let overhead = format!("{{\"jsonrpc\":\"2.0\",\"id\":{id},\"error\":{{\"code\":-32051,\"message\":\"big failure\",\"data\":\"\"}}}}").len();
			let n = target.saturating_sub(overhead);
			singles.push((id, format!("{{\"jsonrpc\":\"2.0\",\"id\":{id},\"method\":\"failblob\",\"params\":[{n}]}}").into_bytes(), overhead + n, String::new(), true));
		} else {
			let (m, len, blob) = blob_call(id, target, rt::draw("kind", 3) as u64);
			singles.push((id, m, len, blob, false));
		}
	}
	if !tiny && (resp_limit as usize) + 100 < req_a.min(req_b) as usize && rt::chance("long_id", 1, 4) {
		// a call to an unknown method with a long string id: the library's own "Method not found" reply echoes the id
		let id_num = 8u64;
		let overhead = "{\"jsonrpc\":\"2.0\",\"id\":\"\",\"error\":{\"code\":-32601,\"message\":\"Method not found\"}}".len();
		let delta = rt::draw("id_delta", 7) as i64 - 3;
		let id_len = ((l as i64 + delta) as usize).saturating_sub(overhead).max(1);
		let id = "i".repeat(id_len);
		singles.push((id_num, format!("{{\"jsonrpc\":\"2.0\",\"id\":\"{id}\",\"method\":\"nope\"}}").into_bytes(), overhead + id_len, format!("long-id:{id}"), true));
	}
	if tiny {
		// an unsubscribe call naming no live subscription: answered `false` (WebSocket only)
		let id = 7u64;
		let reply = format!("{{\"jsonrpc\":\"2.0\",\"id\":{id},\"result\":false}}");
		singles.push((id, format!("{{\"jsonrpc\":\"2.0\",\"id\":{id},\"method\":\"unsub\",\"params\":[12345]}}").into_bytes(), reply.len(), "unsub-false".to_string(), false));
	}
	// subscribe calls (WebSocket only): the response that accepts a subscription carries the subscription id - here a
	// string id around the limit, dealt by the server's id provider - and the response that rejects one carries the
	// handler's error object with data
	let mut sub_accept_id: Option<String> = None;
	if !tiny && rt::chance("subscribe_replies", 1, 3) {
		let delta = rt::draw("sub_delta", 7) as i64 - 3;
		let target = (l as i64 + delta) as usize;
		if rt::chance("reject_or_accept", 1, 2) {
			let id = 9u64;
			let overhead = format!("{{\"jsonrpc\":\"2.0\",\"id\":{id},\"error\":{{\"code\":-32053,\"message\":\"rejected\",\"data\":\"\"}}}}").len();
			let n = target.saturating_sub(overhead);
			singles.push((id, format!("{{\"jsonrpc\":\"2.0\",\"id\":{id},\"method\":\"rsub\",\"params\":[{n}]}}").into_bytes(), overhead + n, "sub-reject".to_string(), true));
		} else {
			let id = 10u64;
			let overhead = format!("{{\"jsonrpc\":\"2.0\",\"id\":{id},\"result\":\"\"}}").len();
			let n = target.saturating_sub(overhead).max(1);
			let sub_id = "s".repeat(n);
			singles.push((id, format!("{{\"jsonrpc\":\"2.0\",\"id\":{id},\"method\":\"sub\",\"params\":[5]}}").into_bytes(), overhead + n, format!("sub-accept:{sub_id}"), false));
			sub_accept_id = Some(sub_id);
		}
	}
	// a batch whose total straddles the limit
	let n_entries = rt::draw_range("n_entries", 1, 5) as usize;
	let mut entries: Vec<(u64, Vec<u8>, usize)> = Vec::new();
	{
		let delta = rt::draw("bdelta", 7) as i64 - 3;
		let total_target = (l as i64 + delta) as usize; // = 2 + sum + (n-1)
		let mut remaining = total_target.saturating_sub(2 + (n_entries - 1));
		// optionally one invalid entry (answered -32600) at a drawn position: its reply has a fixed, known length
		let invalid_at = if n_entries >= 2 && rt::chance("invalid_entry", 1, 3) { Some(rt::draw("invalid_pos", n_entries as u32) as usize) } else { None };
		for i in 0..n_entries {
			let id = 100 + i as u64;
			if invalid_at == Some(i) {
				let (text, reply) = if rt::chance("invalid_kind", 1, 2) {
					("1".to_string(), "{\"jsonrpc\":\"2.0\",\"id\":null,\"error\":{\"code\":-32600,\"message\":\"Invalid request\"}}".to_string())
				} else {
					(format!("{{\"jsonrpc\":\"2.0\",\"id\":{id}}}"), format!("{{\"jsonrpc\":\"2.0\",\"id\":{id},\"error\":{{\"code\":-32600,\"message\":\"Invalid request\"}}}}"))
				};
				remaining = remaining.saturating_sub(reply.len());
				entries.push((id, text.into_bytes(), reply.len()));
				continue;
			}
			let left = n_entries - i - if invalid_at.is_some_and(|p| p > i) { 1 } else { 0 };
			let reserve = if invalid_at.is_some_and(|p| p > i) { 80 } else { 0 };
			let share = if left <= 1 { remaining.saturating_sub(reserve) } else { (remaining.saturating_sub(reserve) / left).max(40) };
			let (m, len, _) = blob_call(id, share.max(response_len(id, "\"\"")), 0);
			// some entries are answered by a slow asynchronous handler (same result): the order in which the entries of a
			// batch complete must not matter
			let m = if rt::chance("async_entry", 1, 3) {
				let delay = *rt::pick("entry_delay", &[0u64, 5, 300]);
				String::from_utf8(m).unwrap().replace("\"method\":\"blob\"", "\"method\":\"ablob\"").replace(",0]}", &format!(",0,{delay}]}}")).into_bytes()
			} else {
				m
			};
			remaining = remaining.saturating_sub(len);
			entries.push((id, m, len));
		}
	}
	let batch_text = format!("[{}]", entries.iter().map(|e| String::from_utf8_lossy(&e.1).to_string()).collect::<Vec<_>>().join(","));
	let batch_total: usize = 2 + entries.iter().map(|e| e.2).sum::<usize>() + entries.len() - 1;
	let any_entry_over = entries.iter().any(|e| e.2 > l);
	rt::event("plan", format!("resp_limit={resp_limit} req_limits=({req_a},{req_b}) entry={entry:?} frag={frag:?} single lens={:?} batch entry lens={:?} batch total={batch_total}", singles.iter().map(|s| s.2).collect::<Vec<_>>(), entries.iter().map(|e| e.2).collect::<Vec<_>>()));
	let mut per_world: Vec<Vec<String>> = Vec::new();
	for (wi, req) in [req_a, req_b].into_iter().enumerate() {
		let mut world = World::new(SrvCfg { entry, frag, max_req: req, max_resp: resp_limit, ..Default::default() });
		world.start().await;
		let mut list: Vec<Vec<u8>> = singles.iter().map(|s| s.1.clone()).collect();
		list.push(batch_text.clone().into_bytes());
		list.push(len_call(999, 60));
		if let Some(sub_id) = &sub_accept_id {
			world.ids.queue.lock().unwrap().push(jsonrpsee_types::SubscriptionId::Str(sub_id.clone().into()));
		}
		let (frames, _alive) = ws_exchange(&mut world, &format!("w{wi}"), list, false).await;
		// HTTP: directly at the tower service, or over a connection (which, for the low-level assembly, goes through
		// `http::call_with_service_builder`)
		let over_conn = rt::chance("http_over_connection", 1, 2);
		let mut http_post = async |world: &mut World, body: Vec<u8>, label: String| -> world::HttpReply {
			if over_conn {
				let (end, _c) = world.connect(&label);
				match world::http_handshake(end).await {
					Ok(mut p) => p.post(body, Some("application/json")).await.unwrap_or(world::HttpReply { status: 599, body: vec![] }),
					Err(_) => world::HttpReply { status: 599, body: vec![] },
				}
			} else {
				world::collect_response(world.tower_call(world::post_request(body)).await).await
			}
		};
		let http_batch = http_post(&mut world, batch_text.clone().into_bytes(), format!("hb{wi}")).await;
		let mut http_singles = Vec::new();
		for (k, s) in singles.iter().enumerate() {
			if s.3 == "unsub-false" || s.3.starts_with("sub-") {
				// (subscription methods are not served over HTTP: the answer would be the library's fixed "Internal
				// error" object, which is larger than these tiny limits - limits below the size of the library's own
				// error objects are otherwise not generated)
				http_singles.push(world::HttpReply { status: 200, body: vec![] });
				continue;
			}
			http_singles.push(http_post(&mut world, s.1.clone(), format!("hs{wi}-{k}")).await);
		}
		let mut summary = Vec::new();
		// --- wire-length monitor ---
		let too_big = |f: &[u8]| matches!(parse_response(f), Ok((_, Err(-32008))) | Ok((_, Err(-32011))));
		for f in frames.iter().chain(std::iter::once(&http_batch.body)).chain(http_singles.iter().map(|r| &r.body)) {
			// (the limit concerns responses: a subscription's notifications are not replies)
			let notification = serde_json::from_slice::<Value>(f).ok().is_some_and(|v| v.get("method").is_some());
			if f.len() > l && !too_big(f) && !notification {
				// one of the library's own fixed error objects (no handler data) above a limit that is smaller than they are
				// one of the library's own error objects (no handler data): they are built without looking at the limit
				let fixed_error = matches!(parse_response(f), Ok((_, Err(-32603 | -32600 | -32601 | -32602 | -32700)))) && !String::from_utf8_lossy(f).contains("\"data\"");
				let sub_kind = match parse_response(f) {
					Ok((i, _)) if i == json!(9) && singles.iter().any(|s| s.3 == "sub-reject") => ":subscribe-rejected",
					Ok((i, _)) if i == json!(10) && singles.iter().any(|s| s.3.starts_with("sub-accept:")) => ":subscribe-accepted",
					_ => "",
				};
				rt::violate(P, "oversized-reply-sent", if fixed_error { "library-error-not-bounded".to_string() } else { format!("{entry:?}{sub_kind}") }, format!("a reply of {} bytes was sent although max_response_body_size is {resp_limit}: {}...", f.len(), String::from_utf8_lossy(f).chars().take(100).collect::<String>()));
			}
		}
		// --- singles ---
		for (k, (id, _m, len, blob, is_err)) in singles.iter().enumerate() {
			let long_id = blob.strip_prefix("long-id:");
			for (transport, reply) in [("ws", frames.iter().find(|f| matches!(parse_response(f), Ok((i, _)) if i == json!(*id) || long_id.is_some_and(|s| i == json!(s)))).cloned()), ("http", Some(http_singles[k].body.clone()))] {
				if (blob == "unsub-false" || blob.starts_with("sub-")) && transport == "http" {
					continue;
				}
				let Some(reply) = reply else {
					rt::violate(P, "missing-reply", transport.to_string(), format!("no reply to call {id} (expected response length {len}, limit {resp_limit})"));
					continue;
				};
				let parsed = parse_response(&reply);
				summary.push(format!("{transport}:{id}:{}", match &parsed { Ok((_, Ok(_))) => "ok".to_string(), Ok((_, Err(c))) => c.to_string(), Err(_) => "malformed".into() }));
				if *len <= l {
					// fits (exactly at the limit included): sent unchanged
					let unchanged = match (&parsed, is_err) {
						(Ok((_, Ok(v))), false) if blob == "unsub-false" => *v == json!(false) && reply.len() == *len,
						(Ok((_, Ok(v))), false) if blob.starts_with("sub-accept:") => v.as_str() == blob.strip_prefix("sub-accept:") && reply.len() == *len,
						(Ok((_, Err(c))), true) if blob == "sub-reject" => *c == -32053 && reply.len() == *len,
						(Ok((_, Ok(v))), false) => v.as_str() == Some(blob.as_str()) && reply.len() == *len,
						(Ok((_, Err(c))), true) if blob == "panic" => *c == -32603 && reply.len() == *len,
						(Ok((_, Err(c))), true) if blob == "failmsg" => *c == -32052 && reply.len() == *len,
						(Ok((_, Err(c))), true) if long_id.is_some() => *c == -32601 && reply.len() == *len,
						(Ok((_, Err(c))), true) => *c == -32051 && reply.len() == *len,
						_ => false,
					};
					if !unchanged {
						let at = if *len == l { "exactly-at-limit" } else { "below-limit" };
						rt::violate(P, "fitting-reply-altered", format!("single:{at}:{transport}"), format!("call {id}: its response has {len} bytes (limit {resp_limit}) and must be sent unchanged; got {} bytes: {}...", reply.len(), String::from_utf8_lossy(&reply).chars().take(120).collect::<String>()));
					}
				} else if long_id.is_some() {
					// (judged by the wire-length monitor above: the reply is sent as it is, see the known finding)
				} else {
					match &parsed {
						Ok((i, Err(-32008))) if *i == json!(*id) => {}
						_ => rt::violate(P, "oversized-not-replaced", format!("single:{transport}"), format!("call {id}: its response would have {len} bytes (limit {resp_limit}); expected error -32008 with id {id}, got {}...", String::from_utf8_lossy(&reply).chars().take(120).collect::<String>())),
					}
				}
			}
		}
		// --- batch ---
		if !any_entry_over {
			for (transport, reply) in [("ws", frames.iter().find(|f| f.first() == Some(&b'[') || matches!(parse_response(f), Ok((Value::Null, Err(-32011))))).cloned()), ("http", Some(http_batch.body.clone()))] {
				let Some(reply) = reply else {
					rt::violate(P, "missing-reply", format!("batch:{transport}"), format!("no reply to the batch (expected total {batch_total}, limit {resp_limit})"));
					continue;
				};
				summary.push(format!("{transport}:batch:{}", if reply.first() == Some(&b'[') { "array" } else { "error" }));
				if batch_total <= l {
					let ok = serde_json::from_slice::<Value>(&reply).ok().and_then(|v| v.as_array().map(|a| a.len() == entries.len())).unwrap_or(false) && reply.len() == batch_total;
					if !ok {
						let at = if batch_total == l { "exactly-at-limit" } else { "below-limit" };
						rt::violate(P, "fitting-reply-altered", format!("batch:{at}:{transport}"), format!("batch of {} entries: reply has {batch_total} bytes (limit {resp_limit}) and must be sent unchanged; got {} bytes: {}...", entries.len(), reply.len(), String::from_utf8_lossy(&reply).chars().take(120).collect::<String>()));
					}
				} else {
					match parse_response(&reply) {
						Ok((Value::Null, Err(-32011))) => {}
						_ => rt::violate(P, "oversized-not-replaced", format!("batch:{transport}"), format!("batch reply would have {batch_total} bytes (limit {resp_limit}); expected error -32011 with id null, got {} bytes: {}...", reply.len(), String::from_utf8_lossy(&reply).chars().take(120).collect::<String>())),
					}
				}
			}
		}
		if outcome_by_id(&frames, 999) == Outcome::None {
			rt::violate(P, "connection-not-serving", "ws", "the WebSocket connection did not answer a later call");
		}
		per_world.push(summary);
		world.drop_stop_handle();
	}
	if per_world[0] != per_world[1] {
		rt::violate(P, "depends-on-request-limit", format!("{entry:?}"), format!("outcomes differ between request limits {req_a} and {req_b}: {:?} vs {:?}", per_world[0], per_world[1]));
	}
	rt::probe("nontrivial");
}

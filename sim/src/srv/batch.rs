//! C02 — a batch is answered by one array with exactly one reply per call entry.
//!
//! Real server on simulated streams; arrays of 0-8 entries from the C01 entry grammar plus calls to the
//! subscription / unsubscription methods and duplicate ids, under batch config Disabled / Limit(n) / Unlimited, over
//! WebSocket (pipelined between single calls, next to a live non-batch subscription, so that "outside the array"
//! is a real question) and over HTTP.

use std::sync::{Arc, Mutex};
use std::time::Duration;

use jsonrpsee_server::BatchRequestConfig;
use serde_json::Value;

use super::model::{Classified, Expect, Want, classify_entry, match_replies, parse_response};
use super::single::gen_message;
use super::stream::Frag;
use super::world::{self, Entry, SrvCfg, World, WsOpen};
use crate::rt;

const P: &str = "C02";

fn gen_entry(pool: &mut Vec<String>, ctr: &mut u64, nonce: u64) -> String {
	let s = match rt::draw("entry_kind", 13) {
		12 => rt::pick("array_entry", &["[7]", "[\"2.0\",1,\"echo\"]", "[]", "[\"2.0\",\"echo\",[5]]", "[null]"]).to_string(),
		0 => format!("{{\"jsonrpc\":\"2.0\",\"id\":\"sub-{nonce}\",\"method\":\"sub\",\"params\":[{nonce}]}}"),
		1 => format!("{{\"jsonrpc\":\"2.0\",\"id\":\"unsub-{nonce}\",\"method\":\"unsub\",\"params\":[{}]}}", rt::pick("unsub_param", &["9000", "\"sub-9001\"", "\"nope\"", "{}"])),
		2 if !pool.is_empty() => {
			// duplicate an id that is already in the batch
			let id = rt::pick("dup_id", pool).clone();
			format!("{{\"jsonrpc\":\"2.0\",\"id\":{id},\"method\":\"echo\",\"params\":[{nonce}]}}")
		}
		_ => String::from_utf8_lossy(&gen_message(pool, ctr, nonce, true)).to_string(),
	};
	s
}

#[derive(Debug, Clone)]
struct BatchPlan {
	entries: Vec<String>,
	text: String,
}

/// What the whole batch must be answered with.
#[derive(Debug, Clone, PartialEq)]
enum Whole {
	/// exactly one error object with this code and id null; nothing executed
	SingleError(i64),
	/// no reply at all (only notifications)
	Nothing,
	/// one array
	Array,
}

fn whole_of(entries: &[Classified], cfg: BatchRequestConfig, n: usize) -> Whole {
	match cfg {
		BatchRequestConfig::Disabled => return Whole::SingleError(-32005),
		BatchRequestConfig::Limit(l) if n > l as usize => return Whole::SingleError(-32010),
		_ => {}
	}
	if n == 0 {
		return Whole::SingleError(-32600);
	}
	if entries.iter().all(|e| e.expect == Expect::NoReply) {
		return Whole::Nothing;
	}
	Whole::Array
}

fn check_batch_reply(transport: &str, plan: &BatchPlan, cls: &[Classified], whole: &Whole, reply: Option<&[u8]>) -> Vec<Value> {
	// returns the subscription ids handed out inside the array
	let mut sub_ids = Vec::new();
	let unclassified = cls.iter().any(|c| c.expect == Expect::Unclassified);
	match (whole, reply) {
		(Whole::Nothing, None) => {}
		(Whole::Nothing, Some(r)) => {
			let t = String::from_utf8_lossy(r);
			if !(transport == "http" && (t.trim().is_empty() || t.trim() == "null")) {
				rt::violate(P, "reply-to-notifications", transport.to_string(), format!("batch of notifications {} was answered with {t}", plan.text));
			}
		}
		(Whole::SingleError(code), Some(r)) => match parse_response(r) {
			Ok((id, Err(c))) if id == Value::Null && c == *code => {}
			other => rt::violate(P, "wrong-batch-error", format!("{transport}:{code}"), format!("batch {} must be answered by the single error {code} with id null, got {} ({other:?})", plan.text, String::from_utf8_lossy(r))),
		},
		(Whole::SingleError(code), None) => rt::violate(P, "missing-batch-reply", format!("{transport}:{code}"), format!("batch {} got no reply; expected the single error {code}", plan.text)),
		(Whole::Array, None) => rt::violate(P, "missing-batch-reply", format!("{transport}:array"), format!("batch {} got no reply", plan.text)),
		(Whole::Array, Some(r)) => {
			let Ok(Value::Array(els)) = serde_json::from_slice::<Value>(r) else {
				rt::violate(P, "not-an-array", transport.to_string(), format!("batch {} was answered with {} instead of one array", plan.text, String::from_utf8_lossy(r)));
				return sub_ids;
			};
			let mut parsed = Vec::new();
			for e in &els {
				match parse_response(e.to_string().as_bytes()) {
					Ok(p) => parsed.push(p),
					Err(why) => rt::violate(P, "malformed-entry", transport.to_string(), format!("array element {e} is not a well-formed response ({why}); batch {}", plan.text)),
				}
			}
			let expecting: Vec<usize> = (0..cls.len()).filter(|i| matches!(cls[*i].expect, Expect::Reply { .. })).collect();
			let exps: Vec<&Expect> = expecting.iter().map(|i| &cls[*i].expect).collect();
			let (m, matched) = match_replies(&parsed, &exps);
			if !unclassified {
				for (k, ok) in matched.iter().enumerate() {
					if !ok {
						rt::violate(P, "unexpected-entry", transport.to_string(), format!("array element {:?} answers no entry of batch {} (or answers one a second time)", parsed[k], plan.text));
					}
				}
				for (e, f) in m.iter().enumerate() {
					if f.is_none() {
						let c = &cls[expecting[e]];
						let kind = c.invokes.as_ref().map(|i| i.0.clone()).unwrap_or_else(|| if c.is_call { "unknown-method".into() } else { "invalid-entry".into() });
						rt::violate(P, "missing-entry", format!("{transport}:{kind}"), format!("entry {} of batch {} has no (matching) response in {}; expected {:?}", plan.entries[expecting[e]], plan.text, String::from_utf8_lossy(r), c.expect));
					}
				}
			}
			for (e, f) in m.iter().enumerate() {
				if let (Some(f), Some((method, _))) = (f, cls[expecting[e]].invokes.as_ref()) {
					if method == "sub" {
						if let Ok(v) = &parsed[*f].1 {
							sub_ids.push(v.clone());
						}
					}
				}
			}
		}
	}
	sub_ids
}

/// How badly does this array fit this batch? (used to pair array frames with batches when two are in flight)
fn misfit(cls: &[Classified], reply: &[u8]) -> usize {
	let Ok(Value::Array(els)) = serde_json::from_slice::<Value>(reply) else { return usize::MAX / 2 };
	let parsed: Vec<_> = els.iter().filter_map(|e| parse_response(e.to_string().as_bytes()).ok()).collect();
	let exps: Vec<&Expect> = cls.iter().filter(|c| matches!(c.expect, Expect::Reply { .. })).map(|c| &c.expect).collect();
	let (m, matched) = match_replies(&parsed, &exps);
	(els.len() - parsed.len()) + matched.iter().filter(|x| !**x).count() + m.iter().filter(|x| x.is_none()).count()
}

pub async fn scenario() {
	rt::expect_panic_marker(world::PANIC_MARKER);
	let entry = *rt::pick("entry", &[Entry::Tower, Entry::Default, Entry::LowLevel, Entry::Default]);
	let buf_cap = *rt::pick("buf_cap", &[1024u32, 1, 2, 4]);
	let frag = match rt::draw("frag", 4) {
		0 | 1 => Frag::default(),
		2 => Frag { short: true, latency_ms: 0, cap: 0 },
		_ => Frag { short: true, latency_ms: 5, cap: *rt::pick("stream_cap", &[0usize, 48, 200]) },
	};
	let batch_cfg = match rt::draw("batch_cfg", 6) {
		0 => BatchRequestConfig::Disabled,
		1 => BatchRequestConfig::Limit(rt::draw("limit", 5)),
		2 => BatchRequestConfig::Limit(rt::draw_range("limit2", 3, 8)),
		_ => BatchRequestConfig::Unlimited,
	};
	let presub = rt::chance("presub", 1, 2);
	let n_batches = rt::draw_range("n_batches", 1, 2);
	// with a cap of one subscription per connection and the pre-existing subscription holding it, every subscribe
	// entry of a batch is refused (-32006): by an entry of the array like any other error
	let max_subs = if presub && rt::chance("sub_cap_1", 1, 4) { 1 } else { 1024 };
	let mut world = World::new(SrvCfg { entry, buf_cap, frag, batch: batch_cfg, auto_sub: true, max_subs, ..Default::default() });
	world.start().await;
	let mut nonce = 100u64;
	let mut plans = Vec::new();
	for _ in 0..n_batches {
		let n = match rt::draw("batch_len", 10) {
			0 => 0,
			k => (k as usize).min(8),
		};
		let mut pool = Vec::new();
		let mut ctr = 0;
		let mut entries = Vec::new();
		for _ in 0..n {
			nonce += 1;
			entries.push(gen_entry(&mut pool, &mut ctr, nonce));
		}
		let text = format!("[{}]", entries.join(","));
		plans.push(BatchPlan { entries, text });
	}
	rt::event("plan", format!("entry={entry:?} buf_cap={buf_cap} frag={frag:?} batch_cfg={batch_cfg:?} presub={presub} batches={:?}", plans.iter().map(|p| &p.text).collect::<Vec<_>>()));

	// ---------------- WebSocket ----------------
	let frames: Arc<Mutex<Vec<(u64, Vec<u8>)>>> = Arc::default();
	let closed_early = Arc::new(Mutex::new(false));
	let (end, _ctl) = world.connect("ws0");
	let ws_task = {
		let (frames, plans, closed_early) = (frames.clone(), plans.clone(), closed_early.clone());
		rt::spawn("ws-peer", async move {
			let (mut tx, mut rx) = match world::ws_handshake(end).await {
				WsOpen::Open(tx, rx) => (tx, rx),
				_ => {
					*closed_early.lock().unwrap() = true;
					return;
				}
			};
			let f2 = frames.clone();
			let reader = rt::spawn("ws-reader", async move {
				while let Some(f) = world::ws_recv(&mut rx).await {
					let st = rt::event("ws-frame", String::from_utf8_lossy(&f).chars().take(400).collect::<String>());
					f2.lock().unwrap().push((st, f));
				}
			});
			let mut send = async |tx: &mut world::WsTx, text: String| {
				rt::yield_n(rt::draw("think", 3)).await;
				rt::event("ws-send", text.chars().take(400).collect::<String>());
				world::ws_send(tx, text.as_bytes(), false).await.is_ok()
			};
			let mut ok = true;
			if presub {
				ok &= send(&mut tx, "{\"jsonrpc\":\"2.0\",\"id\":\"presub\",\"method\":\"sub\",\"params\":[77]}".into()).await;
				if rt::chance("wait_presub", 1, 2) {
					tokio::time::sleep(Duration::from_millis(20)).await;
				}
			}
			for (bi, p) in plans.iter().enumerate() {
				ok &= send(&mut tx, format!("{{\"jsonrpc\":\"2.0\",\"id\":\"single-a{bi}\",\"method\":\"aecho\",\"params\":[{bi}]}}")).await;
				ok &= send(&mut tx, p.text.clone()).await;
				ok &= send(&mut tx, format!("{{\"jsonrpc\":\"2.0\",\"id\":\"single-b{bi}\",\"method\":\"echo\",\"params\":[{bi}]}}")).await;
			}
			if !ok {
				*closed_early.lock().unwrap() = true;
			}
			rt::quiesce().await;
			let _ = tx.close().await;
			drop(tx);
			let _ = tokio::time::timeout(Duration::from_secs(5), reader).await;
		})
	};
	// ---------------- HTTP ----------------
	let http_replies: Arc<Mutex<Vec<(usize, world::HttpReply)>>> = Arc::default();
	let mut http_tasks = Vec::new();
	for (bi, p) in plans.iter().enumerate() {
		let fut = world.tower_call(world::post_request(p.text.clone().into_bytes()));
		let out = http_replies.clone();
		http_tasks.push(rt::spawn("http-call", async move {
			let r = world::collect_response(fut.await).await;
			rt::event("http-reply", format!("{} {}", r.status, String::from_utf8_lossy(&r.body).chars().take(400).collect::<String>()));
			out.lock().unwrap().push((bi, r));
		}));
	}
	for t in http_tasks {
		let _ = t.await;
	}
	let _ = ws_task.await;

	// ---------------- oracle ----------------
	let frames = frames.lock().unwrap().clone();
	if *closed_early.lock().unwrap() {
		rt::violate(P, "connection-closed", "ws", "the server closed the WebSocket connection while batches were being sent");
	}
	// frames that are arrays, in order: the k-th array belongs to the k-th batch that is answered by an array
	let mut arrays: Vec<&Vec<u8>> = Vec::new();
	let mut objects: Vec<(Value, Result<Value, i64>, &Vec<u8>)> = Vec::new();
	let mut notifs: Vec<Value> = Vec::new();
	for (_, f) in &frames {
		match serde_json::from_slice::<Value>(f) {
			Ok(Value::Array(_)) => arrays.push(f),
			Ok(v @ Value::Object(_)) if v.get("method").is_some() && v.get("id").is_none() => notifs.push(v),
			_ => match parse_response(f) {
				Ok((id, out)) => objects.push((id, out, f)),
				Err(why) => rt::violate(P, "malformed-frame", "ws", format!("frame {} is neither an array, a notification nor a response ({why})", String::from_utf8_lossy(f))),
			},
		}
	}
	let mut known_sub_ids: Vec<Value> = Vec::new();
	let mut batch_entry_ids: Vec<Value> = Vec::new();
	let mut expected_objects: Vec<(Value, Option<i64>)> = Vec::new(); // (id, Some(code) for errors)
	if presub {
		expected_objects.push((Value::String("presub".into()), None));
	}
	// pair array frames with the batches that must be answered by an array (two batches may overtake each other)
	let ws_array_batches: Vec<usize> = (0..plans.len())
		.filter(|bi| {
			let cls: Vec<Classified> = plans[*bi].entries.iter().map(|e| classify_entry(e, false)).collect();
			whole_of(&cls, batch_cfg, plans[*bi].entries.len()) == Whole::Array
		})
		.collect();
	let mut array_of_batch: std::collections::BTreeMap<usize, usize> = std::collections::BTreeMap::new();
	if ws_array_batches.len() == 2 && arrays.len() == 2 {
		let c0: Vec<Classified> = plans[ws_array_batches[0]].entries.iter().map(|e| classify_entry(e, false)).collect();
		let c1: Vec<Classified> = plans[ws_array_batches[1]].entries.iter().map(|e| classify_entry(e, false)).collect();
		let straight = misfit(&c0, arrays[0]).saturating_add(misfit(&c1, arrays[1]));
		let swapped = misfit(&c0, arrays[1]).saturating_add(misfit(&c1, arrays[0]));
		if swapped < straight {
			array_of_batch.insert(ws_array_batches[0], 1);
			array_of_batch.insert(ws_array_batches[1], 0);
			rt::probe("batch_replies_overtook");
		}
	}
	let mut array_cursor = 0usize;
	let mut any_nontrivial = false;
	let mut wanted_invocations: Vec<(String, Option<String>)> = Vec::new();
	if presub {
		wanted_invocations.push(("sub".into(), Some("[77]".into())));
	}
	for (bi, plan) in plans.iter().enumerate() {
		wanted_invocations.push(("aecho".into(), Some(format!("[{bi}]"))));
		wanted_invocations.push(("echo".into(), Some(format!("[{bi}]"))));
		expected_objects.push((Value::String(format!("single-a{bi}")), None));
		expected_objects.push((Value::String(format!("single-b{bi}")), None));
		for (transport, http) in [("ws", false), ("http", true)] {
			let cls: Vec<Classified> = plan.entries.iter().map(|e| classify_entry(e, http)).collect();
			let whole = whole_of(&cls, batch_cfg, plan.entries.len());
			if whole == Whole::Array || whole == Whole::Nothing {
				for c in &cls {
					if let Some(i) = &c.invokes {
						wanted_invocations.push(i.clone());
					}
				}
			}
			if !http {
				for c in &cls {
					if let Expect::Reply { ids, .. } = &c.expect {
						batch_entry_ids.extend(ids.iter().filter(|i| **i != Value::Null).cloned());
					}
				}
				let reply: Option<&[u8]> = match whole {
					Whole::Array => {
						let k = array_of_batch.get(&bi).copied().unwrap_or(array_cursor);
						let r = arrays.get(k).map(|v| v.as_slice());
						array_cursor += 1;
						r
					}
					Whole::SingleError(code) => {
						expected_objects.push((Value::Null, Some(code)));
						// found among objects below
						objects.iter().find(|(id, out, _)| *id == Value::Null && *out == Err(code)).map(|o| o.2.as_slice())
					}
					Whole::Nothing => None,
				};
				let subs = check_batch_reply(transport, plan, &cls, &whole, reply);
				known_sub_ids.extend(subs);
				if whole == Whole::Array && cls.iter().filter(|c| matches!(c.expect, Expect::Reply { .. })).count() >= 2 {
					any_nontrivial = true;
				}
			} else {
				let hr: Vec<(usize, world::HttpReply)> = http_replies.lock().unwrap().clone();
				let rep = hr.iter().find(|(b, _)| *b == bi).map(|(_, r)| r.clone());
				match rep {
					None => rt::violate(P, "missing-batch-reply", "http:none", format!("no HTTP response for batch {}", plan.text)),
					Some(r) => {
						let body = if r.body.is_empty() || r.body == b"null" { None } else { Some(r.body.as_slice()) };
						let body = if whole == Whole::Nothing { Some(r.body.as_slice()) } else { body };
						check_batch_reply(transport, plan, &cls, &whole, body);
					}
				}
				// per-entry equivalence with the entry sent alone (deterministic, non-subscription handlers)
				if whole == Whole::Array {
					let rep = hr.iter().find(|(b, _)| *b == bi).map(|(_, r)| r.clone());
					if let Some(Ok(Value::Array(els))) = rep.map(|r| serde_json::from_slice::<Value>(&r.body)) {
						for (e, c) in plan.entries.iter().zip(cls.iter()) {
							if !c.is_call || matches!(&c.expect, Expect::Reply { want: Want::Err(codes), .. } if codes == &vec![-32603] && c.invokes.is_none()) {
								continue;
							}
							let alone = world::collect_response(world.tower_call(world::post_request(e.clone().into_bytes())).await).await;
							if let Some(i) = &c.invokes {
								wanted_invocations.push(i.clone());
							}
							let Ok(alone_v) = serde_json::from_slice::<Value>(&alone.body) else { continue };
							let id = alone_v.get("id").cloned().unwrap_or(Value::Null);
							let same_id: Vec<&Value> = els.iter().filter(|x| x.get("id") == Some(&id)).collect();
							if !same_id.is_empty() && !same_id.iter().any(|x| **x == alone_v) {
								rt::violate(P, "differs-from-single", c.invokes.as_ref().map(|i| i.0.clone()).unwrap_or_default(), format!("entry {e} got {:?} inside the batch but {alone_v} when sent alone", same_id));
							}
						}
					}
				}
			}
		}
	}
	if arrays.len() > array_cursor {
		rt::violate(P, "extra-array", "ws", format!("{} array frames for {} batches that are answered by an array", arrays.len(), array_cursor));
	}
	// every other frame must be accounted for by non-batch traffic
	if let Some(Value::Object(_)) = None::<Value> {}
	for (id, out, f) in &objects {
		let pos = expected_objects.iter().position(|(eid, code)| eid == id && code.map(|c| Err(c) == *out).unwrap_or(true));
		match pos {
			Some(p) => {
				if *id == Value::String("presub".into()) {
					if let Ok(v) = out {
						known_sub_ids.push(v.clone());
					}
				}
				expected_objects.remove(p);
			}
			None => {
				if batch_entry_ids.contains(id) {
					let is_sub = String::from_utf8_lossy(f).contains("sub-");
					let refused = matches!(out, Err(-32006));
					rt::violate(P, "outside-array", if is_sub && refused { "subscribe-entry-refused:ws" } else if is_sub { "subscribe-entry:ws" } else { "entry:ws" }, format!("response {} to a batch entry was delivered as a frame of its own, outside the array", String::from_utf8_lossy(f)));
				} else {
					rt::violate(P, "unaccounted-frame", "ws", format!("frame {} belongs to no message that was sent", String::from_utf8_lossy(f)));
				}
			}
		}
	}
	for (id, _) in &expected_objects {
		rt::violate(P, "missing-single-reply", "ws", format!("no reply to the non-batch message with id {id}"));
	}
	for n in &notifs {
		let sid = n.get("params").and_then(|p| p.get("subscription")).cloned().unwrap_or(Value::Null);
		if n.get("method") != Some(&Value::String("notif".into())) || !known_sub_ids.contains(&sid) {
			rt::violate(P, "unaccounted-frame", "ws:notification", format!("notification {n} belongs to no subscription that was accepted on this connection (known: {known_sub_ids:?})"));
		}
	}
	// no entry is executed for empty / disabled / too long batches; valid entries are executed once per sending
	{
		let log = world.log.lock().unwrap();
		let mut got: Vec<(String, Option<String>)> = log.invocations.iter().map(|i| (i.method.clone(), i.params.clone())).collect();
		for w in &wanted_invocations {
			if let Some(p) = got.iter().position(|g| g == w) {
				got.remove(p);
			}
		}
		for g in got {
			rt::violate(P, "spurious-execution", g.0.clone(), format!("handler {} ran with params {:?}, which no admitted entry asked for (batch config {batch_cfg:?})", g.0, g.1));
		}
	}
	if any_nontrivial {
		rt::probe("nontrivial");
	}
	world.drop_stop_handle();
}

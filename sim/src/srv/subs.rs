//! C04 + C06 — subscriptions on the server: notifications are the subscription's own, ordered, and stop at close;
//! bookkeeping (unsubscribe truth table, per-connection cap) is exact.
//!
//! Real server, 1-2 WebSocket connections, subscription handlers that are remote-controlled by the harness
//! (accept / reject / send / try_send / clone sink / drop clone / is_closed / return), a director that issues a
//! drawn history of steps {subscribe, handler command, unsubscribe (own / foreign / stale / garbage id), abrupt
//! disconnect, connection reset, server stop}. One scenario, two oracles (`check_c04`, `check_c06`); the property
//! under check is selected by the run parameter `prop` (4 or 6) so that each check reports only its own property.

use std::collections::BTreeMap;
use std::sync::{Arc, Mutex};
use std::time::Duration;

use jsonrpsee_types::SubscriptionId;
use serde_json::Value;

use super::stream::{Ctl, Frag};
use super::world::{self, Entry, SrvCfg, SubCmd, SubCtl, World, WsOpen, WsTx};
use crate::rt;

#[derive(Debug, Clone)]
enum Step {
	Subscribe(usize),
	Cmd(usize, u32),
	/// (connection, which id: 0 own live / 1 other connection's / 2 stale-or-random / 3 garbage params)
	Unsubscribe(usize, u32),
	Disconnect(usize),
	Reset(usize),
	Stop,
	Settle,
	/// the peer stops / resumes reading its socket (back-pressure on the server's write path)
	PauseReader(usize),
	ResumeReader(usize),
	/// a burst of calls with bulky replies: together with a paused reader it fills the server's write path
	Clog(usize),
	/// an ordinary call that takes 300 ms: a stop that lands meanwhile has to wait for it while the connection drains
	SlowCall(usize),
	/// the last connection is opened only now
	LateConnect,
}

#[derive(Debug, Clone)]
struct Frame {
	stamp: u64,
	idx: usize,
	v: Value,
}

struct Conn {
	tx: Option<WsTx>,
	ctl: Ctl,
	frames: Arc<Mutex<Vec<Frame>>>,
	reader: Option<tokio::task::JoinHandle<()>>,
	/// stamp at which the harness dropped / reset its end
	peer_closed: Option<u64>,
	paused: Arc<std::sync::atomic::AtomicBool>,
}

#[derive(Debug, Clone)]
struct SubCall {
	conn: usize,
	call_id: String,
	sent_stamp: u64,
}

#[derive(Debug, Clone)]
struct UnsubCall {
	conn: usize,
	call_id: String,
	target: String,
	/// stamp at which the peer began to send it
	sent: u64,
}

/// `k` in 0..100; the mix depends on whether the subscription is still pending
fn draw_cmd(k: u32, pending: bool, payload: &mut u64, clogged: bool) -> SubCmd {
	*payload += 1;
	if pending {
		return match k {
			0..=49 => SubCmd::Accept,
			50..=69 => SubCmd::AcceptTimeout(3),
			70..=84 => SubCmd::Reject,
			85..=92 => SubCmd::DropPending,
			93..=96 => SubCmd::Return(0),
			_ => SubCmd::Send(*payload),
		};
	}
	match k {
		// under back-pressure a send with a deadline is what times out (and is retried with the message it returns)
		20..=44 if clogged => SubCmd::SendTimeout(*payload, 5),
		0..=44 => SubCmd::Send(*payload),
		45..=54 => SubCmd::TrySend(*payload),
		55..=59 => SubCmd::SendTimeout(*payload, 5),
		60..=67 => SubCmd::CloneSink,
		68..=75 => SubCmd::DropClone,
		76..=82 => SubCmd::CheckClosed,
		83..=85 => SubCmd::AwaitClosed(5),
		86..=88 => SubCmd::Detach,
		89..=93 => SubCmd::Return(0),
		_ => SubCmd::Return(1),
	}
}

pub fn scenario_c04() -> impl std::future::Future<Output = ()> + Send {
	scenario(4)
}

pub fn scenario_c06() -> impl std::future::Future<Output = ()> + Send {
	scenario(6)
}

async fn scenario(prop: u32) {
	let sweep_base = rt::param("sweep_base").is_some();
	let entry = *rt::pick("entry", &[Entry::Tower, Entry::Default, Entry::LowLevel, Entry::Default]);
	let buf_cap = *rt::pick("buf_cap", &[1024u32, 1, 2, 4]);
	let cap = *rt::pick("cap", &[1024u32, 0, 1, 2, 3]);
	let n_conns = rt::draw_range("n_conns", 1, 2) as usize;
	// a connection that is opened in the middle of the history, after another one has gone: whatever the server keys
	// by connection must not confuse the newcomer with anybody else
	let late_conn = !sweep_base && rt::param("fault_at").is_none() && rt::chance("late_connection", 1, 4);
	let n_conns = if late_conn { n_conns + 1 } else { n_conns };
	let collide = n_conns == 2 && rt::chance("collide", 1, 3);
	// reuse mode: an id that was freed by a successful unsubscribe is dealt again to the next subscription on that
	// connection (an id provider is free to do that)
	let reuse = !collide && rt::chance("reuse_ids", 1, 4);
	let clogged_mode = rt::chance("clogged_mode", 1, 5);
	let stream_cap = if clogged_mode { 64 } else { *rt::pick("stream_cap", &[0usize, 0, 64, 300]) };
	let buf_cap = if clogged_mode { *rt::pick("buf_cap_clogged", &[1u32, 2]) } else { buf_cap };
	let frag = if rt::chance("frag", 1, 4) { Frag { short: true, latency_ms: 0, cap: stream_cap } } else { Frag { cap: stream_cap, ..Frag::default() } };
	let n_steps = rt::draw_range("n_steps", 4, 24);
	let mut steps: Vec<Step> = Vec::new();
	let mut faulted = false;
	for i in 0..n_steps {
		let c = rt::draw("conn", n_conns as u32) as usize;
		steps.push(match rt::draw("step", 30) {
			0..=5 => Step::Subscribe(c),
			6..=21 => Step::Cmd(rt::draw("which_sub", 6) as usize, rt::draw("cmd", 100)),
			22..=25 => Step::Unsubscribe(c, rt::draw("unsub_kind", 6).min(3)),
			27 if stream_cap > 0 => Step::PauseReader(c),
			28 if stream_cap > 0 => Step::ResumeReader(c),
			29 => Step::SlowCall(c),
			26 if !sweep_base && !faulted && i >= 3 => {
				faulted = true;
				match rt::draw("fault", 3) {
					0 => Step::Reset(c),
					1 => Step::Stop,
					_ => Step::Disconnect(c),
				}
			}
			_ => Step::Settle,
		});
	}
	if reuse {
		// every unsubscribe of an own id is followed by a pause and a new subscribe on that connection, which is dealt
		// the freed id
		let mut i = 0;
		while i < steps.len() {
			if let Step::Unsubscribe(c, 0) = steps[i] {
				steps.insert(i + 1, Step::Settle);
				steps.insert(i + 2, Step::Subscribe(c));
				i += 2;
			}
			i += 1;
		}
	}
	if late_conn {
		// ... after connection 0 has gone (half of the time), somewhere in the second half of the history
		let at = steps.len() / 2 + rt::draw("late_at", (steps.len() / 2 + 1) as u32) as usize;
		let at = at.min(steps.len());
		steps.insert(at, Step::LateConnect);
		if rt::chance("late_after_disconnect", 1, 2) {
			steps.insert(at, Step::Settle);
			steps.insert(at, Step::Disconnect(0));
		}
	}
	if clogged_mode {
		// the peer of connection 0 stops reading and the write path fills up before anything else happens
		steps.insert(0, Step::PauseReader(0));
		steps.insert(1, Step::Clog(0));
		let at = 2 + rt::draw("resume_at", (steps.len() - 1) as u32) as usize;
		steps.insert(at.min(steps.len()), Step::ResumeReader(0));
	}
	// fault-position sweep: one fault placed before step `fault_at`
	if let Some(at) = rt::param("fault_at") {
		let f = match rt::param("fault_kind").unwrap_or(0) {
			0 => Step::Disconnect(0),
			1 => Step::Reset(0),
			_ => Step::Stop,
		};
		let at = (at as usize - 1).min(steps.len());
		steps.insert(at, f);
	}
	rt::event("plan", format!("prop=C{prop:02} entry={entry:?} buf_cap={buf_cap} cap={cap} conns={n_conns} collide={collide} reuse={reuse} frag={frag:?} steps={steps:?}"));

	let mut world = World::new(SrvCfg { entry, buf_cap, frag, max_subs: cap, auto_sub: false, ..Default::default() });
	world.start().await;
	// collide mode: the j-th subscription of every connection is dealt the id 500+j, so that the same id is live on
	// two connections at once (the harness then issues one subscribe at a time)
	let mut dealt: Vec<u64> = vec![0; n_conns];
	let mut redealt: Vec<String> = Vec::new();
	// ---------------- connections ----------------
	let mut conns: Vec<Conn> = Vec::new();
	for ci in 0..n_conns {
		if late_conn && ci + 1 == n_conns {
			// opened later, by the LateConnect step
			let (_a, _b, ctl) = super::stream::pair("not-yet-connected", frag);
			conns.push(Conn { tx: None, ctl, frames: Arc::default(), reader: None, peer_closed: None, paused: Arc::default() });
			continue;
		}
		match open_conn(&mut world, ci).await {
			Some(c) => conns.push(c),
			None => {
				rt::violate(if prop == 4 { "C04" } else { "C06" }, "handshake-failed", "ws", "WebSocket handshake failed on a fresh server");
				return;
			}
		}
	}
	// ---------------- director ----------------
	let mut sub_calls: Vec<SubCall> = Vec::new();
	let mut unsub_calls: Vec<UnsubCall> = Vec::new();
	let mut payload = 1000u64;
	let mut k = 0u64;
	let mut stop_stamp: Option<u64> = None;
	// the instant at which the server reports that it has stopped
	let stopped_stamp: Arc<Mutex<Option<u64>>> = Arc::default();
	if let Some(h) = world.server_handle.clone() {
		let ss = stopped_stamp.clone();
		rt::spawn("stopped-watcher", async move {
			h.stopped().await;
			*ss.lock().unwrap() = Some(rt::event("stopped-resolved", ""));
		});
	}
	// runs with preemption points (hook H8, run parameter `preempt`)
	let preempt_run = rt::param("preempt").is_some();
	let mut eager: Option<(usize, String)> = None;
	let mut eager_resub: Option<(usize, String)> = None;
	for step in &steps {
		k += 1;
		match step {
			Step::Subscribe(c) => {
				let conn_frames = conns[*c].frames.clone();
				if let Some(tx) = conns[*c].tx.as_mut() {
					if collide {
						tokio::time::sleep(Duration::from_millis(5)).await;
						world.ids.queue.lock().unwrap().clear();
						world.ids.queue.lock().unwrap().push(SubscriptionId::Num(500 + dealt[*c]));
						dealt[*c] += 1;
					}
					let mut reused = false;
					if reuse {
						// an id whose unsubscribe the peer has seen answered with true, not dealt again yet
						let freed: Option<String> = unsub_calls.iter().filter(|u: &&UnsubCall| u.conn == *c && !redealt.contains(&u.target)).find(|u| conn_frames.lock().unwrap().iter().any(|f| f.v.get("id").and_then(|i| i.as_str()) == Some(u.call_id.as_str()) && f.v.get("result") == Some(&Value::Bool(true)))).map(|u| u.target.clone());
						if let Some(t) = freed {
							let id = match serde_json::from_str::<Value>(&t) {
								Ok(Value::Number(n)) => n.as_u64().map(SubscriptionId::Num),
								Ok(Value::String(s)) => Some(SubscriptionId::Str(s.into())),
								_ => None,
							};
							if let Some(id) = id {
								tokio::time::sleep(Duration::from_millis(5)).await;
								world.ids.queue.lock().unwrap().clear();
								world.ids.queue.lock().unwrap().push(id);
								redealt.push(t);
								reused = true;
								rt::probe("sub_id_dealt_again");
							}
						}
					}
					let call_id = format!("s{k}");
					let st = rt::event("dir-subscribe", format!("c{c} {call_id}"));
					let msg = format!("{{\"jsonrpc\":\"2.0\",\"id\":\"{call_id}\",\"method\":\"sub\",\"params\":[{k}]}}");
					if matches!(tokio::time::timeout(Duration::from_millis(200), world::ws_send(tx, msg.as_bytes(), false)).await, Ok(Ok(()))) {
						sub_calls.push(SubCall { conn: *c, call_id, sent_stamp: st });
					}
					if collide || reused {
						tokio::time::sleep(Duration::from_millis(5)).await;
					}
				}
			}
			Step::Cmd(which, cmd) => {
				{
				let reg = world.subs.lock().unwrap();
				if !reg.is_empty() {
					let ctl = &reg[which % reg.len()];
					let pending = !ctl.events.lock().unwrap().iter().any(|e| e.what == "accept");
					let cmd = draw_cmd(*cmd, pending, &mut payload, clogged_mode);
					let accepting = matches!(cmd, SubCmd::Accept | SubCmd::AcceptTimeout(_));
					let rejecting = matches!(cmd, SubCmd::Reject);
					let _ = ctl.cmd.send(cmd);
					if preempt_run && accepting && rt::chance("eager_unsubscribe", 1, 2) {
						eager = Some((ctl.conn, ctl.sub_id.clone()));
					}
					if preempt_run && rejecting && rt::chance("eager_resubscribe", 1, 2) {
						eager_resub = subscribe_k(&ctl.params).map(|k| (ctl.conn, format!("s{k}")));
					}
				}
				}
				// a client that subscribes again the moment it holds the rejection of its subscribe call
				if let Some((c, rejected_call)) = eager_resub.take() {
					let mut seen = false;
					for round in 0..60 {
						seen = conns[c].frames.lock().unwrap().iter().any(|f| f.v.get("id").and_then(|i| i.as_str()) == Some(rejected_call.as_str()) && f.v.get("error").is_some());
						if seen {
							break;
						}
						if round % 12 == 11 {
							tokio::time::sleep(Duration::from_millis(1)).await;
						} else {
							rt::yield_n(1).await;
						}
					}
					if let (true, Some(tx)) = (seen, conns[c].tx.as_mut()) {
						rt::probe("eager_resubscribe");
						k += 1;
						let call_id = format!("s{k}");
						let st = rt::event("dir-subscribe", format!("c{c} {call_id} (eager, after the rejection of {rejected_call})"));
						let msg = format!("{{\"jsonrpc\":\"2.0\",\"id\":\"{call_id}\",\"method\":\"sub\",\"params\":[{k}]}}");
						if matches!(tokio::time::timeout(Duration::from_millis(200), world::ws_send(tx, msg.as_bytes(), false)).await, Ok(Ok(()))) {
							sub_calls.push(SubCall { conn: c, call_id, sent_stamp: st });
						}
					}
				}
				// a client that unsubscribes the moment it holds the subscription id: wait (a bounded while) for the
				// response that carries the id, then send the unsubscribe at once
				if let Some((c, sub_id)) = eager.take() {
					let want: Option<Value> = serde_json::from_str(&sub_id).ok();
					let mut seen = false;
					for round in 0..60 {
						seen = conns[c].frames.lock().unwrap().iter().any(|f| f.v.get("id").and_then(|i| i.as_str()).is_some_and(|i| i.starts_with('s')) && f.v.get("result").is_some() && f.v.get("result") == want.as_ref());
						if seen {
							break;
						}
						if round % 12 == 11 {
							tokio::time::sleep(Duration::from_millis(1)).await;
						} else {
							rt::yield_n(1).await;
						}
					}
					if let (true, Some(tx)) = (seen, conns[c].tx.as_mut()) {
						rt::probe("eager_unsubscribe");
						let call_id = format!("u{k}");
						let sent = rt::event("dir-unsubscribe", format!("c{c} {call_id} target={sub_id} (eager)"));
						let msg = format!("{{\"jsonrpc\":\"2.0\",\"id\":\"{call_id}\",\"method\":\"unsub\",\"params\":[{sub_id}]}}");
						if matches!(tokio::time::timeout(Duration::from_millis(200), world::ws_send(tx, msg.as_bytes(), false)).await, Ok(Ok(()))) {
							unsub_calls.push(UnsubCall { conn: c, call_id, target: sub_id, sent });
						}
					}
				}
			}
			Step::Unsubscribe(c, kind) => {
				let target: Option<String> = {
					let reg = world.subs.lock().unwrap();
					let own: Vec<&Arc<SubCtl>> = reg.iter().filter(|s| s.conn == *c).collect();
					let other: Vec<&Arc<SubCtl>> = reg.iter().filter(|s| s.conn != *c).collect();
					match kind {
						0 if !own.is_empty() => Some(own[rt::draw("own", own.len() as u32) as usize].sub_id.clone()),
						1 if !other.is_empty() => Some(other[rt::draw("other", other.len() as u32) as usize].sub_id.clone()),
						2 => Some("424242".into()),
						3 => Some("{\"not\":\"an id\"}".into()),
						_ if !own.is_empty() => Some(own[0].sub_id.clone()),
						_ => Some("\"nope\"".into()),
					}
				};
				if let (Some(t), Some(tx)) = (target, conns[*c].tx.as_mut()) {
					let call_id = format!("u{k}");
					let sent = rt::event("dir-unsubscribe", format!("c{c} {call_id} target={t}"));
					let msg = format!("{{\"jsonrpc\":\"2.0\",\"id\":\"{call_id}\",\"method\":\"unsub\",\"params\":[{t}]}}");
					if matches!(tokio::time::timeout(Duration::from_millis(200), world::ws_send(tx, msg.as_bytes(), false)).await, Ok(Ok(()))) {
						unsub_calls.push(UnsubCall { conn: *c, call_id, target: t, sent });
					}
				}
			}
			Step::Disconnect(c) => {
				if let Some(tx) = conns[*c].tx.take() {
					let st = rt::event("dir-disconnect", format!("c{c}"));
					rt::probe("fault.peer_disconnect");
					drop(tx);
					if let Some(r) = conns[*c].reader.take() {
						r.abort();
					}
					conns[*c].peer_closed = Some(st);
				}
			}
			Step::Reset(c) => {
				if conns[*c].peer_closed.is_none() {
					let st = rt::event("dir-reset", format!("c{c}"));
					conns[*c].ctl.reset();
					conns[*c].peer_closed = Some(st);
					conns[*c].tx = None;
				}
			}
			Step::Stop => {
				if stop_stamp.is_none() {
					if let Some(h) = world.server_handle.as_ref() {
						let st = rt::event("dir-stop", "");
						rt::probe("fault.server_stop");
						let _ = h.stop();
						stop_stamp = Some(st);
						world.drop_stop_handle();
					}
				}
			}
			Step::LateConnect => {
				let ci = n_conns - 1;
				if conns[ci].tx.is_none() && conns[ci].peer_closed.is_none() && stop_stamp.is_none() {
					rt::event("dir-late-connect", format!("c{ci}"));
					rt::probe("late_connection");
					if let Some(c) = open_conn(&mut world, ci).await {
						conns[ci] = c;
					}
				}
			}
			Step::SlowCall(c) => {
				if let Some(tx) = conns[*c].tx.as_mut() {
					rt::event("dir-slow-call", format!("c{c}"));
					let msg = format!("{{\"jsonrpc\":\"2.0\",\"id\":\"slow{k}\",\"method\":\"slow\",\"params\":[{k}]}}");
					let _ = tokio::time::timeout(Duration::from_millis(200), world::ws_send(tx, msg.as_bytes(), false)).await;
				}
			}
			Step::Settle => tokio::time::sleep(Duration::from_millis(rt::draw_range("settle", 1, 30) as u64)).await,
			Step::Clog(c) => {
				if let Some(tx) = conns[*c].tx.as_mut() {
					rt::event("dir-clog", format!("c{c}"));
					for j in 0..6 {
						let msg = format!("{{\"jsonrpc\":\"2.0\",\"id\":\"clog{k}-{j}\",\"method\":\"echo\",\"params\":[\"{}\"]}}", "z".repeat(80));
						if !matches!(tokio::time::timeout(Duration::from_millis(200), world::ws_send(tx, msg.as_bytes(), false)).await, Ok(Ok(()))) {
							break;
						}
					}
				}
			}
			Step::PauseReader(c) => {
				rt::event("dir-pause-reader", format!("c{c}"));
				rt::probe("reader_paused");
				conns[*c].paused.store(true, std::sync::atomic::Ordering::Relaxed);
			}
			Step::ResumeReader(c) => {
				rt::event("dir-resume-reader", format!("c{c}"));
				conns[*c].paused.store(false, std::sync::atomic::Ordering::Relaxed);
			}
		}
		rt::yield_n(rt::draw("between", 3)).await;
	}
	// let every handler finish: tell all of them to return, then wait for quiescence
	for c in &conns {
		c.paused.store(false, std::sync::atomic::Ordering::Relaxed);
	}
	tokio::time::sleep(Duration::from_millis(50)).await;
	rt::quiesce().await;
	let final_cmd_stamp = rt::event("dir-finish-handlers", "");
	{
		let reg = world.subs.lock().unwrap();
		for s in reg.iter() {
			// half of the handlers end with a closing value (discarded unless the subscription was accepted)
			let _ = s.cmd.send(SubCmd::Return(rt::draw("final_return", 2)));
		}
	}
	rt::quiesce().await;
	if sweep_base {
		rt::probe_n("steps", steps.len() as u64);
	}

	// ---------------- gather ----------------
	let frames: Vec<Vec<Frame>> = conns.iter().map(|c| c.frames.lock().unwrap().clone()).collect();
	let conn_gone: Vec<Option<u64>> = conns.iter().map(|c| c.ctl.server_dropped()).collect();
	let reg: Vec<Arc<SubCtl>> = world.subs.lock().unwrap().clone();
	let log = world.log.lock().unwrap();
	let view = View { frames: &frames, conn_gone: &conn_gone, peer_closed: conns.iter().map(|c| c.peer_closed).collect(), reg: &reg, mw: &log.mw, sub_calls: &sub_calls, unsub_calls: &unsub_calls, cap, stop_stamp, stopped_stamp: *stopped_stamp.lock().unwrap(), final_cmd_stamp, entry };
	if prop == 4 {
		check_c04(&view);
	} else {
		check_c06(&view);
	}
	drop(log);
	for c in conns.iter_mut() {
		c.tx = None;
	}
	world.drop_stop_handle();
}

async fn open_conn(world: &mut World, ci: usize) -> Option<Conn> {
	let (end, ctl) = world.connect(&format!("ws{ci}"));
	match world::ws_handshake(end).await {
		WsOpen::Open(tx, mut rx) => {
			let frames: Arc<Mutex<Vec<Frame>>> = Arc::default();
			let f2 = frames.clone();
			let paused = Arc::new(std::sync::atomic::AtomicBool::new(false));
			let p2 = paused.clone();
			let reader = rt::spawn("ws-reader", async move {
				loop {
					while p2.load(std::sync::atomic::Ordering::Relaxed) {
						tokio::time::sleep(Duration::from_millis(2)).await;
					}
					let Some(f) = world::ws_recv(&mut rx).await else { break };
					let text = String::from_utf8_lossy(&f).to_string();
					let st = rt::event("ws-frame", format!("c{ci} {}", text.chars().take(300).collect::<String>()));
					let mut g = f2.lock().unwrap();
					let idx = g.len();
					g.push(Frame { stamp: st, idx, v: serde_json::from_str(&text).unwrap_or(Value::String(text)) });
				}
				rt::event("ws-reader-eof", format!("c{ci}"));
			});
			Some(Conn { tx: Some(tx), ctl, frames, reader: Some(reader), peer_closed: None, paused })
		}
		_ => None,
	}
}

struct View<'a> {
	frames: &'a [Vec<Frame>],
	/// stamp at which the server side of the connection's stream was dropped
	conn_gone: &'a [Option<u64>],
	peer_closed: Vec<Option<u64>>,
	reg: &'a [Arc<SubCtl>],
	mw: &'a [world::MwEvent],
	sub_calls: &'a [SubCall],
	unsub_calls: &'a [UnsubCall],
	cap: u32,
	stop_stamp: Option<u64>,
	stopped_stamp: Option<u64>,
	final_cmd_stamp: u64,
	entry: Entry,
}

impl View<'_> {
	/// The harness numbers connections 0.. in the order they were opened; the server's conn ids follow the same order
	/// for both assemblies.
	fn conn_of(&self, s: &SubCtl) -> usize {
		s.conn
	}

	fn response(&self, conn: usize, call_id: &str) -> Option<&Frame> {
		self.frames[conn].iter().find(|f| f.v.get("id").and_then(|i| i.as_str()) == Some(call_id))
	}

	/// mw call-end event of an unsubscribe call
	fn unsub_end(&self, conn: usize, call_id: &str) -> Option<&world::MwEvent> {
		self.mw.iter().find(|e| e.kind == "call-end" && e.conn == conn && e.id == format!("\"{call_id}\""))
	}
}

/// The earliest instant at which the subscription can have become active: the return of `accept()`; in runs with
/// preemption points (hook H8) `accept()` may be descheduled after it has registered the subscription, so there it
/// is the call of `accept()`.
fn active_from(s: &SubCtl) -> Option<u64> {
	let preempt_run = rt::param("preempt").is_some();
	s.events.lock().unwrap().iter().find(|e| e.what == "accept" && e.ok).map(|e| if preempt_run { e.invoked } else { e.returned })
}

fn accept_ok(s: &SubCtl) -> Option<u64> {
	s.events.lock().unwrap().iter().find(|e| e.what == "accept" && e.ok).map(|e| e.returned)
}

// ------------------------------------------------------------------------------------------------
// C04

fn check_c04(v: &View) {
	const P: &str = "C04";
	let mut nontrivial = false;
	// payloads are unique over the whole run: payload -> the subscription whose handler sent it
	let mut by_payload: BTreeMap<u64, usize> = BTreeMap::new();
	for (si, s) in v.reg.iter().enumerate() {
		for e in s.events.lock().unwrap().iter().filter(|e| matches!(e.what.as_str(), "send" | "try_send" | "send_timeout")) {
			if let Some(p) = e.payload {
				by_payload.insert(p, si);
			}
		}
	}
	// the response that accepted a subscription: by the id of its subscribe call (subscription ids may be dealt again)
	let accept_frame_of = |frames: &'_ [Frame], s: &SubCtl| -> Option<usize> {
		let call_id = format!("s{}", subscribe_k(&s.params)?);
		frames.iter().find(|g| g.v.get("id").and_then(|i| i.as_str()) == Some(call_id.as_str()) && g.v.get("result").map(|r| r.to_string()) == Some(s.sub_id.clone())).map(|g| g.idx)
	};
	for (ci, frames) in v.frames.iter().enumerate() {
		// subscriptions of this connection
		let subs: Vec<&Arc<SubCtl>> = v.reg.iter().filter(|s| v.conn_of(s) == ci).collect();
		// notification frames
		for f in frames.iter().filter(|f| f.v.get("method").is_some() && f.v.get("id").is_none()) {
			let sid = f.v["params"]["subscription"].to_string();
			let method_ok = f.v["method"] == "notif";
			// whose is it? an item is attributed by its payload, a closing notification by its id
			let owners: Vec<&Arc<SubCtl>> = match f.v["params"].get("result") {
				Some(r) => match r.as_u64().and_then(|p| by_payload.get(&p)) {
					Some(si) => {
						let s = &v.reg[*si];
						if v.conn_of(s) != ci {
							rt::violate(P, "foreign-notification", "other-connection", format!("connection {ci} received {}, an item sent by a handler of connection {}", f.v, v.conn_of(s)));
							continue;
						}
						if s.sub_id != sid {
							rt::violate(P, "wrong-subscription-id", "item", format!("item {} was sent by the handler of subscription {} but carries id {sid}", f.v, s.sub_id));
							continue;
						}
						vec![s]
					}
					None => {
						rt::violate(P, "wrong-notifications", "unknown-payload", format!("connection {ci} received {}, whose payload no handler sent", f.v));
						continue;
					}
				},
				None => subs.iter().filter(|s| s.sub_id == sid).copied().collect(),
			};
			let accepted: Vec<&&Arc<SubCtl>> = owners.iter().filter(|s| accept_ok(s).is_some()).collect();
			if accepted.is_empty() {
				let elsewhere = v.reg.iter().any(|s| s.sub_id == sid && v.conn_of(s) != ci);
				rt::violate(P, "foreign-notification", if elsewhere && owners.is_empty() { "other-connection" } else { "never-accepted" }, format!("connection {ci} received {} for a subscription that was not accepted on it", f.v));
				continue;
			}
			if !method_ok {
				rt::violate(P, "wrong-method-name", "notif", format!("notification {} does not carry the subscription's notification method", f.v));
			}
			// after the response that accepted it (the earliest one, if the id was dealt more than once)
			match accepted.iter().filter_map(|s| accept_frame_of(frames, s)).min() {
				Some(a) if a < f.idx => {}
				Some(a) => rt::violate(P, "notification-before-accept", "order", format!("notification {} (frame {}) precedes the response that accepted the subscription (frame {a})", f.v, f.idx)),
				None => rt::violate(P, "notification-before-accept", "no-accept-frame", format!("notification {} but no accept response for {sid} was received before the end", f.v)),
			}
		}
		for s in &subs {
			let evs = s.events.lock().unwrap().clone();
			let accepted = accept_ok(s);
			// delivered payloads in wire order (attributed by payload)
			let my_index = v.reg.iter().position(|x| Arc::ptr_eq(x, s));
			let delivered: Vec<(u64, u64)> = frames
				.iter()
				.filter(|f| f.v.get("id").is_none() && f.v.get("method").is_some() && f.v["params"].get("result").is_some())
				.filter_map(|f| f.v["params"]["result"].as_u64().map(|p| (f.stamp, p)))
				.filter(|(_, p)| by_payload.get(p).copied() == my_index)
				.collect();
			let closings: Vec<&Frame> = frames.iter().filter(|f| f.v.get("id").is_none() && f.v["params"]["subscription"].to_string() == s.sub_id && f.v["params"].get("error").is_some()).collect();
			// accepted subscriptions of this connection that carried the same id (one after the other)
			let same_id = subs.iter().filter(|x| x.sub_id == s.sub_id && accept_ok(x).is_some()).count();
			if accepted.is_none() {
				if !delivered.is_empty() || (!closings.is_empty() && same_id == 0) {
					rt::violate(P, "notification-without-accept", "rejected-or-pending", format!("subscription {} was never accepted but frames {:?} / {} closing notifications were sent for it", s.sub_id, delivered, closings.len()));
				}
				continue;
			}
			if closings.len() > same_id {
				rt::violate(P, "closing-notification-twice", "count", format!("subscription {}: {} closing notifications for {same_id} accepted subscription(s) with that id", s.sub_id, closings.len()));
			}
			let sends: Vec<&world::SubEvent> = evs.iter().filter(|e| matches!(e.what.as_str(), "send" | "try_send" | "send_timeout")).collect();
			let ok_payloads: Vec<u64> = sends.iter().filter(|e| e.ok).filter_map(|e| e.payload).collect();
			// delivered must be a subsequence of the successful sends, in order, each at most once
			let mut it = ok_payloads.iter();
			for (_, p) in &delivered {
				if !it.any(|q| q == p) {
					let was_failed = sends.iter().any(|e| !e.ok && e.payload == Some(*p));
					let sig = if was_failed { "failed-send-delivered" } else if ok_payloads.contains(p) { "order-or-duplicate" } else { "unknown-payload" };
					rt::violate(P, "wrong-notifications", sig, format!("subscription {}: delivered {:?}, successful sends in handler order {:?}", s.sub_id, delivered.iter().map(|d| d.1).collect::<Vec<_>>(), ok_payloads));
					break;
				}
			}
			if delivered.len() >= 2 {
				nontrivial = true;
			}
			// close instant: successful unsubscribe, or the server side of the connection gone
			let mut close_at: Option<(u64, &str)> = None;
			for u in v.unsub_calls.iter().filter(|u| u.conn == ci && u.target == s.sub_id) {
				if let Some(e) = v.unsub_end(ci, &u.call_id) {
					if e.response.as_deref().is_some_and(|r| r.contains("\"result\":true")) && active_from(s).is_some_and(|a| e.stamp > a) && close_at.is_none_or(|c| e.stamp < c.0) {
						close_at = Some((e.stamp, "unsubscribe"));
					}
				}
			}
			if let Some(g) = v.conn_gone[ci] {
				if close_at.is_none_or(|c| g < c.0) {
					close_at = Some((g, if v.stop_stamp.is_some_and(|s| s < g) { "server-stop" } else { "connection-end" }));
				}
			}
			// the server reported that it has stopped: nothing is open any more
			if let Some(t) = v.stopped_stamp {
				if close_at.is_none_or(|c| t < c.0) {
					close_at = Some((t, "server-stopped"));
				}
			}
			if let Some((t, why)) = close_at {
				for e in &sends {
					if e.invoked > t {
						if e.ok {
							rt::violate(P, "send-after-close-succeeded", why.to_string(), format!("subscription {} was closed ({why}) at #{t}; a {} invoked at #{} returned Ok", s.sub_id, e.what, e.invoked));
						}
						if let Some(p) = e.payload {
							if delivered.iter().any(|d| d.1 == p) {
								rt::violate(P, "delivered-after-close", why.to_string(), format!("subscription {} was closed ({why}) at #{t}; payload {p} of a send invoked at #{} was delivered", s.sub_id, e.invoked));
							}
						}
						nontrivial = true;
					}
				}
				for e in evs.iter().filter(|e| (e.what == "is_closed" || e.what == "closed-future") && e.invoked > t) {
					if !e.ok {
						rt::violate(P, "not-closed-after-close", format!("{why}:{}", e.what), format!("subscription {} was closed ({why}) at #{t}; {} invoked at #{} did not report closed", s.sub_id, e.what, e.invoked));
					}
				}
			} else if v.peer_closed[ci].is_none() && v.stop_stamp.is_none() {
				// connection alive to the end: everything that was sent successfully arrived
				let got: Vec<u64> = delivered.iter().map(|d| d.1).collect();
				if got != ok_payloads {
					rt::violate(P, "lost-notifications", "live-connection", format!("subscription {} on a connection that stayed up: successful sends {ok_payloads:?}, delivered {got:?}", s.sub_id));
				}
			}
		}
	}
	if nontrivial {
		rt::probe("nontrivial");
	}
	let _ = (v.cap, v.final_cmd_stamp, v.sub_calls.len(), v.entry);
}

// ------------------------------------------------------------------------------------------------
// C06

fn check_c06(v: &View) {
	const P: &str = "C06";
	let mut nontrivial = false;
	// --- per-connection permit model ---
	for ci in 0..v.frames.len() {
		// subscribe calls in the order the server started them
		let starts: Vec<&world::MwEvent> = v.mw.iter().filter(|e| e.kind == "call-start" && e.conn == ci && e.method == "sub").collect();
		for st in &starts {
			// admitted earlier and not yet released at st.stamp
			let earlier: Vec<&&world::MwEvent> = starts.iter().filter(|o| o.stamp < st.stamp).collect();
			// `in_use`: slots that may still be taken; `in_use_for_sure`: slots that are certainly taken. They differ for a
			// subscription that is being rejected: the handler lets go of the pending sink when it calls `reject()`, and
			// the slot is back at the latest when `reject()` has returned - or when the peer sent this subscribe call
			// holding the rejection in its hands, whichever is earlier.
			let mut in_use = 0u32;
			let mut in_use_for_sure = 0u32;
			let mut rejection_decides = false;
			let mut uncertain = false;
			let st_sent = v.sub_calls.iter().find(|c| c.conn == ci && format!("\"{}\"", c.call_id) == st.id).map(|c| c.sent_stamp);
			for o in earlier {
				let refused = v.mw.iter().find(|e| e.kind == "call-end" && e.conn == ci && e.id == o.id).is_some_and(|e| e.response.as_deref().unwrap_or("").contains("-32006"));
				if refused {
					continue;
				}
				// admitted: its handler registered itself under the unique k of the subscribe call
				match v.reg.iter().find(|s| v.conn_of(s) == ci && subscribe_k(&s.params) == call_k(&o.id)) {
					Some(s) => {
						let released = *s.released.lock().unwrap();
						let reject_called = s.events.lock().unwrap().iter().find(|e| e.what == "reject").map(|e| e.invoked);
						let rejection_held = reject_called.is_some()
							&& st_sent.is_some_and(|sent| v.frames[ci].iter().any(|f| f.stamp < sent && f.v.get("error").is_some() && f.v.get("id").and_then(|i| i.as_str()).is_some_and(|i| format!("\"{i}\"") == o.id)));
						if !(released.is_some_and(|r| r < st.stamp) || rejection_held) {
							in_use += 1;
						} else if !released.is_some_and(|r| r < st.stamp) {
							rejection_decides = true;
						}
						if !(released.is_some_and(|r| r < st.stamp) || reject_called.is_some_and(|r| r < st.stamp)) {
							in_use_for_sure += 1;
						}
					}
					None => uncertain = true,
				}
			}
			if uncertain {
				continue;
			}
			let end = v.mw.iter().find(|e| e.kind == "call-end" && e.conn == ci && e.id == st.id);
			let handler_ran = v.reg.iter().any(|s| v.conn_of(s) == ci && subscribe_k(&s.params) == call_k(&st.id));
			let refused = end.is_some_and(|e| e.response.as_deref().unwrap_or("").contains("-32006"));
			let expect_refuse = in_use >= v.cap;
			if in_use_for_sure >= v.cap && handler_ran {
				rt::violate(P, "cap-exceeded", format!("cap{}", v.cap), format!("connection {ci}: subscribe {} was admitted although {in_use_for_sure} subscriptions (cap {}) were pending or active", st.id, v.cap));
			}
			if !expect_refuse && refused {
				let sig = if rejection_decides { format!("cap{}:after-rejection-seen", v.cap) } else { format!("cap{}", v.cap) };
				rt::violate(P, "slot-not-returned", sig, format!("connection {ci}: subscribe {} was refused with -32006 although only {in_use} of {} slots were in use", st.id, v.cap));
			}
			if expect_refuse || in_use > 0 {
				nontrivial = true;
			}
		}
	}
	// --- unsubscribe truth table ---
	for u in v.unsub_calls {
		let Some(end) = v.unsub_end(u.conn, &u.call_id) else { continue };
		let got = end.response.as_deref().map(|r| r.contains("\"result\":true"));
		let at = end.stamp;
		// active subscriptions with that id on that connection at `at`
		let mut expect = false;
		let mut undecided = false;
		let preempt_run = rt::param("preempt").is_some();
		let mut why = String::from("unknown id");
		for s in v.reg.iter().filter(|s| v.conn_of(s) == u.conn && s.sub_id == u.target) {
			if expect {
				// (an earlier holder of the id already decides it)
				break;
			}
			let Some(acc) = accept_ok(s) else {
				why = "never accepted".into();
				continue;
			};
			let from = active_from(s).unwrap_or(acc);
			// (an unsubscribe that ended before this subscription was accepted concerned an earlier holder of the id)
			let unsubscribed_before = v.unsub_calls.iter().filter(|o| o.conn == u.conn && o.target == u.target && o.call_id != u.call_id).any(|o| v.unsub_end(o.conn, &o.call_id).is_some_and(|e| e.stamp < at && e.stamp > from && e.response.as_deref().is_some_and(|r| r.contains("\"result\":true"))));
			if acc > at {
				why = "not yet accepted".into();
				// Runs with preemption points: `accept()` can be descheduled after it has queued the response, so the
				// subscription becomes active somewhere between the call and the return of `accept()`. Inside that span
				// the answer is owed to what the peer can know: a peer that held the accepting response before it sent
				// the unsubscribe names an active subscription; one that guessed the id may get either answer.
				if preempt_run {
					let inv = s.events.lock().unwrap().iter().find(|e| e.what == "accept" && e.ok).map(|e| e.invoked);
					if inv.is_some_and(|i| i < at) {
						let released = *s.released.lock().unwrap();
						let held = v.frames[u.conn].iter().any(|f| f.stamp < u.sent && f.v.get("id").and_then(|i| i.as_str()).is_some_and(|i| call_k(&format!("\"{i}\"")) == subscribe_k(&s.params)) && f.v.get("result").is_some());
						if held && unsubscribed_before {
							why = "already unsubscribed".into();
						} else if held && !released.is_some_and(|r| r < at) {
							expect = true;
							why = format!("the peer held the accepting response before it sent the unsubscribe; accept() returned at #{acc}");
							rt::probe("unsubscribe_inside_accept_span");
						} else if !held {
							undecided = true;
						}
					}
				}
				continue;
			}
			// ended before?
			let released = *s.released.lock().unwrap();
			if released.is_some_and(|r| r < at) {
				why = "handler already gone".into();
				continue;
			}
			if unsubscribed_before {
				why = "already unsubscribed".into();
				continue;
			}
			expect = true;
			why = format!("active since #{acc}, handler holds its sink");
			// which handler history led here (for the signature)
			let evs = s.events.lock().unwrap();
			let clone_dropped = evs.iter().any(|e| e.what == "drop-clone" && e.returned < at);
			if clone_dropped {
				why.push_str("; a sink clone was dropped earlier");
			}
		}
		if v.reg.iter().any(|s| v.conn_of(s) != u.conn && s.sub_id == u.target) && !expect {
			why = format!("{why}; id is live on another connection");
		}
		if undecided && !expect {
			rt::probe("unsubscribe_undecided_in_accept_span");
			continue;
		}
		match got {
			Some(g) if g != expect => {
				let sig = if why.contains("clone was dropped") {
					"false-after-clone-drop"
				} else if why.contains("another connection") {
					"foreign-connection-id"
				} else if expect && why.contains("held the accepting response") {
					"false-for-active:inside-accept-span"
				} else if expect {
					"false-for-active"
				} else {
					"true-for-inactive"
				};
				rt::violate(P, "unsubscribe-result", sig, format!("unsubscribe({}) on connection {} answered {g}, expected {expect} ({why})", u.target, u.conn));
			}
			_ => {}
		}
		if expect {
			nontrivial = true;
		}
	}
	// --- is_closed() is false while the subscription is active by the model ---
	for s in v.reg {
		let ci = v.conn_of(s);
		let Some(acc) = accept_ok(s) else { continue };
		let from = active_from(s).unwrap_or(acc);
		let evs = s.events.lock().unwrap();
		for e in evs.iter().filter(|e| (e.what == "is_closed" || e.what == "closed-future") && e.ok) {
			// closed reported: is there a cause before e.invoked?
			let unsub = v.unsub_calls.iter().filter(|u| u.conn == ci && u.target == s.sub_id).any(|u| v.unsub_end(ci, &u.call_id).is_some_and(|x| x.stamp < e.returned && x.stamp > from && x.response.as_deref().is_some_and(|r| r.contains("\"result\":true"))));
			let conn_ending = v.peer_closed[ci].is_some_and(|p| p < e.returned) || v.stop_stamp.is_some_and(|p| p < e.returned) || v.conn_gone[ci].is_some_and(|p| p < e.returned);
			if !unsub && !conn_ending && acc < e.invoked {
				let clone_dropped = evs.iter().any(|x| x.what == "drop-clone" && x.returned < e.invoked);
				rt::violate(P, "closed-while-active", if clone_dropped { "after-clone-drop" } else { "no-cause" }, format!("subscription {} reports is_closed() although it was not unsubscribed, its connection is up and the handler holds its sink", s.sub_id));
			}
		}
	}
	if nontrivial {
		rt::probe("nontrivial");
	}
	let _ = (v.final_cmd_stamp, v.sub_calls.len(), v.entry);
	let _: BTreeMap<u8, u8> = BTreeMap::new();
}

fn subscribe_k(params: &Option<String>) -> Option<u64> {
	params.as_ref().and_then(|p| serde_json::from_str::<Vec<u64>>(p).ok()).and_then(|v| v.first().copied())
}

fn call_k(id_json: &str) -> Option<u64> {
	// "\"s17\"" -> 17
	id_json.trim_matches('"').trim_start_matches('s').parse().ok()
}

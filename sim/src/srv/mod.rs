//! srvsim — the real server on simulated byte streams with raw peers.

pub mod batch;
pub mod conns;
pub mod httpframing;
pub mod limits;
pub mod model;
pub mod single;
pub mod stop;
pub mod stream;
pub mod subs;
pub mod world;

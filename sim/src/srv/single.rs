//! C01 — every message gets at most one well-formed reply carrying its own id.
//!
//! Real server (tower service / low-level assembly, hyper HTTP/1, soketto, ws + http transports, rpc module with
//! sync / async / blocking / panicking handlers) on simulated streams. Generated messages are pipelined over one or
//! two WebSocket connections (so several are in flight while earlier ones execute, with back-pressure from a small
//! write queue) and sent one per POST over HTTP. Expectations come from the classifier in `model.rs`.

use std::sync::{Arc, Mutex};
use std::time::Duration;

use serde_json::{Value, json};

use super::model::{self, Classified, Expect, classify, parse_response, satisfies};
use super::stream::Frag;
use super::world::{self, Entry, SrvCfg, World, WsOpen};
use crate::rt;

const P: &str = "C01";

fn ws_bytes() -> Vec<u8> {
	if !rt::chance("lead_ws", 3, 10) {
		return vec![];
	}
	let n = match rt::draw("ws_len", 4) {
		0 => 1,
		1 => rt::draw_range("ws_n", 2, 20),
		2 => rt::draw_range("ws_n2", 100, 126),
		_ => 127,
	};
	let with_ff = rt::chance("formfeed", 1, 12);
	(0..n).map(|_| if with_ff && rt::chance("ff_here", 1, 3) { 0x0c } else { *rt::pick("ws_ch", &[b' ', b'\t', b'\n', b'\r']) }).collect()
}

pub fn gen_id(pool: &mut Vec<String>, ctr: &mut u64) -> String {
	// unique (within the connection) except null
	loop {
		*ctr += 1;
		let c = *ctr;
		let id = match rt::draw("id_form", 12) {
			0 => "null".to_string(),
			1 => format!("{c}"),
			2 => format!("{}", 9007199254740991u64 - c),
			3 => format!("{}", 9007199254740993u64 + c),
			4 => format!("{}", u64::MAX - c),
			5 if c == 1 => "0".to_string(),
			6 if c == 2 => format!("{}", u64::MAX),
			7 => format!("\"s{c}\""),
			8 if c == 3 => "\"\"".to_string(),
			9 => format!("\"ü\\n\\\"{c}\\u00e9\""),
			10 => format!("\"{}{c}\"", "x".repeat(300)),
			_ => format!("\"{c}\""),
		};
		if id == "null" || !pool.contains(&id) {
			pool.push(id.clone());
			return id;
		}
	}
}

fn gen_params(nonce: u64) -> Option<String> {
	match rt::draw("params", 10) {
		0 => None,
		1 => Some(format!("[{nonce}]")),
		2 => Some(format!("[{nonce},\"str\",{{\"k\":[1,2,null,true]}}]")),
		3 => Some(format!("{{\"a\":{nonce},\"b\":\"\\u00fc\\\"\"}}")),
		4 => Some(format!("{nonce}")),
		5 => Some("\"just a string\"".into()),
		6 => Some("null".into()),
		7 => Some(format!("[[[[{nonce}]]],[],{{}}]")),
		8 => Some(format!("[{nonce}.5,-3,1e2]")),
		_ => Some(format!("[{nonce}, {nonce}]")),
	}
}

/// One generated message. The expectation is computed afterwards by the classifier, from the bytes alone.
pub fn gen_message(pool: &mut Vec<String>, ctr: &mut u64, nonce: u64, for_batch: bool) -> Vec<u8> {
	let method = |allow_unknown: bool| -> String {
		let ms: &[&str] = if allow_unknown {
			&["echo", "echo", "add", "seqadd", "seqadd", "aecho", "aecho", "becho", "bpanic", "fail", "len", "nope", "ec\\u0068o", "e\\\"q", ""]
		} else {
			&["echo", "aecho", "becho", "add"]
		};
		rt::pick("method", ms).to_string()
	};
	let mut obj = |id: Option<String>, version: Option<&str>, method_json: Option<String>, params: Option<String>, extra: Option<&str>, dup: Option<&str>| -> String {
		let mut members: Vec<String> = Vec::new();
		if let Some(v) = version {
			members.push(format!("\"jsonrpc\":{v}"));
		}
		if let Some(i) = id {
			members.push(format!("\"id\":{i}"));
		}
		if let Some(m) = method_json {
			members.push(format!("\"method\":{m}"));
		}
		if let Some(p) = params {
			members.push(format!("\"params\":{p}"));
		}
		if let Some(e) = extra {
			members.push(e.to_string());
		}
		if let Some(d) = dup {
			members.push(d.to_string());
		}
		// drawn member order
		let mut out = Vec::new();
		while !members.is_empty() {
			let k = rt::draw("member_order", members.len() as u32) as usize;
			out.push(members.remove(k));
		}
		format!("{{{}}}", out.join(","))
	};
	let add_params = |n: u64| -> Option<String> {
		match rt::draw("add_params", 6) {
			0 => Some(format!("[{},{}]", n % 1000, 7)),
			1 => Some(format!("[{},{}]", u32::MAX, u32::MAX)),
			2 => Some("[1]".into()),
			3 => Some("[1,\"2\"]".into()),
			4 => Some("{\"a\":1,\"b\":2}".into()),
			_ => None,
		}
	};
	let mut body: Vec<u8> = match rt::draw("msg_kind", if for_batch { 17 } else { 20 }) {
		0..=8 => {
			let m = method(true);
			let params = if m == "add" {
				add_params(nonce)
			} else if m == "seqadd" {
				Some(rt::pick("seq_params", &["[1,2]", "[1 ,2]", "[ 1, 2 ]", "[1\t,\n2]", "[1,2,3]", "[7 , 8 , 9]", "[1]", "[\"a\",2]", "{\"a\":1}", "[4294967295,4294967295]", "[1,  2]"]).to_string())
			} else {
				gen_params(nonce)
			};
			let extra = if rt::chance("extra_member", 1, 8) { Some("\"extra\":{\"x\":[1]}") } else { None };
			obj(Some(gen_id(pool, ctr)), Some("\"2.0\""), Some(format!("\"{m}\"")), params, extra, None).into_bytes()
		}
		9 | 10 => obj(None, Some("\"2.0\""), Some(format!("\"{}\"", method(true))), gen_params(nonce), None, None).into_bytes(),
		11 | 12 => {
			let bad = rt::pick("bad_id", &["-1", "1.5", "true", "{\"x\":1}", "[1]", "1e3", "18446744073709551616", "-0.0"]).to_string();
			obj(Some(bad), Some("\"2.0\""), Some(format!("\"{}\"", method(false))), gen_params(nonce), None, None).into_bytes()
		}
		13..=15 => {
			let id = if rt::chance("inv_has_id", 2, 3) { Some(gen_id(pool, ctr)) } else { None };
			match rt::draw("invalid_kind", 8) {
				0 => obj(id, None, Some("\"echo\"".into()), gen_params(nonce), None, None),
				1 => obj(id, Some("\"1.0\""), Some("\"echo\"".into()), gen_params(nonce), None, None),
				2 => obj(id, Some("2.0"), Some("\"echo\"".into()), None, None, None),
				3 => obj(id, Some("\"2.0\""), Some("17".into()), None, None, None),
				4 => obj(id, Some("\"2.0\""), None, gen_params(nonce), None, None),
				5 => obj(id, Some("\"2.0\""), Some("\"echo\"".into()), None, None, Some("\"method\":\"add\"")),
				6 => obj(id, Some("\"2.0\""), Some("\"echo\"".into()), Some("[1]".into()), None, Some("\"params\":[2]")),
				_ if rt::chance("dup_id_member", 1, 2) => {
					// an `id` member that occurs twice (the same value, or two different ones): not a request, and not a
					// notification either - both values are ids the library can represent
					let first = id.unwrap_or_else(|| gen_id(pool, ctr));
					let second = if rt::chance("dup_id_same", 1, 2) { first.clone() } else { "424242".to_string() };
					let dup = format!("\"id\":{second}");
					obj(Some(first), Some("\"2.0\""), Some("\"echo\"".into()), gen_params(nonce), None, Some(dup.as_str()))
				}
				_ => obj(id, Some("\"2.0\""), Some("\"echo\"".into()), None, None, Some("\"jsonrpc\":\"2.0\"")),
			}
			.into_bytes()
		}
		16 => rt::pick("scalar", &["42", "\"str\"", "null", "true", "-1.5e3"]).as_bytes().to_vec(),
		_ => {
			let valid = obj(Some(gen_id(pool, ctr)), Some("\"2.0\""), Some("\"echo\"".into()), Some(format!("[{nonce}]")), None, None);
			match rt::draw("garbage_kind", 9) {
				0 => valid.as_bytes()[..valid.len() - 1 - rt::draw("trunc", (valid.len() - 1) as u32) as usize].to_vec(),
				1 => b"xyz".to_vec(),
				2 => vec![],
				3 => vec![0xff, 0xfe, b'{', 0x80, b'}'],
				4 => b"{".to_vec(),
				5 => format!("{valid} x").into_bytes(),
				6 => format!("{valid}{valid}").into_bytes(),
				7 => {
					let mut v = valid.into_bytes();
					let k = rt::draw("flip", v.len() as u32) as usize;
					v[k] = *rt::pick("flip_to", &[b'"', b'{', b'}', b',', b':', b'x', 0x00, 0xc3]);
					v
				}
				_ => b"{\"jsonrpc\":\"2.0\",\"id\":1,\"method\":\"echo\",}".to_vec(),
			}
		}
	};
	if for_batch {
		return body;
	}
	let mut out = ws_bytes();
	out.append(&mut body);
	out
}

#[derive(Debug, Clone)]
struct Sent {
	bytes: Vec<u8>,
	cls: Classified,
	quirk_expect: Option<Expect>,
}

#[derive(Debug, Default)]
struct ConnResult {
	frames: Vec<(u64, Vec<u8>)>,
	closed_early: bool,
}

pub async fn scenario() {
	rt::expect_panic_marker(world::PANIC_MARKER);
	let entry = *rt::pick("entry", &[Entry::Tower, Entry::Default, Entry::LowLevel, Entry::Default]);
	let buf_cap = *rt::pick("buf_cap", &[1024u32, 1, 2, 4]);
	let frag = match rt::draw("frag", 4) {
		0 | 1 => Frag::default(),
		2 => Frag { short: true, latency_ms: 0, cap: 0 },
		_ => Frag { short: true, latency_ms: 5, cap: *rt::pick("stream_cap", &[0usize, 48, 200]) },
	};
	let n_conns = rt::draw_range("n_conns", 1, 2);
	let http_over_stream = rt::chance("http_over_stream", 1, 4);
	// server pings (1 s, inactivity limit 2 s, hook H6): a peer that answers pings but is otherwise idle for a while is
	// alive, and the connection has to keep serving it
	let ping_mode = rt::chance("ping_mode", 1, 6);
	let mut world = World::new(SrvCfg { entry, buf_cap, frag, ping: ping_mode, ..Default::default() });
	world.start().await;
	let mut all: Vec<Vec<Sent>> = Vec::new();
	let mut nonce = 100u64;
	for _ in 0..n_conns {
		let n = rt::draw_range("n_msgs", 2, 12);
		let mut pool = Vec::new();
		let mut ctr = 0u64;
		let mut v = Vec::new();
		for _ in 0..n {
			nonce += 1;
			let bytes = gen_message(&mut pool, &mut ctr, nonce, false);
			if bytes.iter().find(|b| !matches!(b, b' ' | b'\t' | b'\n' | b'\r')) == Some(&b'[') {
				continue; // batches belong to C02
			}
			let mut cls = classify(&bytes);
			let mut quirk_expect = None;
			if cls.quirk == Some("formfeed-in-leading-whitespace") {
				quirk_expect = Some(cls.expect.clone());
				cls.expect = Expect::Unclassified;
				cls.invokes = None;
			} else if cls.quirk.is_some() {
				// bytes that are not UTF-8 but JSON-shaped once decoded lossily: checked on their own (HTTP side),
				// kept out of the WebSocket matching
				quirk_expect = Some(cls.expect.clone());
				cls.expect = Expect::Unclassified;
			}
			v.push(Sent { bytes, cls, quirk_expect });
		}
		// sentinel: the connection keeps serving
		let s = format!("{{\"jsonrpc\":\"2.0\",\"id\":\"sentinel\",\"method\":\"echo\",\"params\":[{nonce}]}}").into_bytes();
		v.push(Sent { cls: classify(&s), bytes: s, quirk_expect: None });
		all.push(v);
	}
	rt::event("plan", format!("entry={entry:?} ping_mode={ping_mode} buf_cap={buf_cap} frag={frag:?} conns={n_conns} http_over_stream={http_over_stream} msgs={:?}", all.iter().map(|v| v.iter().map(|s| String::from_utf8_lossy(&s.bytes).chars().take(160).collect::<String>()).collect::<Vec<_>>()).collect::<Vec<_>>()));

	// ---------------- WebSocket: pipelined ----------------
	let mut tasks = Vec::new();
	for (ci, msgs) in all.iter().enumerate() {
		let (end, _ctl) = world.connect(&format!("ws{ci}"));
		let msgs = msgs.clone();
		let res: Arc<Mutex<ConnResult>> = Arc::default();
		let res2 = res.clone();
		tasks.push((
			res,
			rt::spawn("ws-peer", async move {
				let (mut tx, mut rx) = match world::ws_handshake(end).await {
					WsOpen::Open(tx, rx) => (tx, rx),
					_ => {
						res2.lock().unwrap().closed_early = true;
						return;
					}
				};
				let res3 = res2.clone();
				let reader = rt::spawn("ws-reader", async move {
					while let Some(f) = world::ws_recv(&mut rx).await {
						let st = rt::event("ws-frame", String::from_utf8_lossy(&f).chars().take(300).collect::<String>());
						res3.lock().unwrap().frames.push((st, f));
					}
					rt::event("ws-reader-eof", "");
				});
				for (mi, m) in msgs.iter().enumerate() {
					if ping_mode && mi + 1 == msgs.len() {
						// idle (but ponging) for longer than the inactivity limit before the sentinel
						rt::probe("idle_stretch_with_pings");
						tokio::time::sleep(Duration::from_millis(3500)).await;
					}
					rt::yield_n(rt::draw("think", 3)).await;
					if rt::chance("think_ms", 1, 6) {
						tokio::time::sleep(Duration::from_millis(rt::draw_range("ms", 1, 30) as u64)).await;
					}
					let binary = rt::chance("binary", 1, 5);
					rt::event("ws-send", String::from_utf8_lossy(&m.bytes).chars().take(200).collect::<String>());
					if world::ws_send(&mut tx, &m.bytes, binary).await.is_err() {
						res2.lock().unwrap().closed_early = true;
						break;
					}
				}
				// everything answered? (with pings on the timers never end: a span longer than any handler takes)
				if ping_mode {
					tokio::time::sleep(Duration::from_secs(4)).await;
				} else {
					rt::quiesce().await;
				}
				let _ = tx.close().await;
				drop(tx);
				let _ = tokio::time::timeout(Duration::from_secs(5), reader).await;
			}),
		));
	}
	// ---------------- HTTP: one POST per message ----------------
	let http_results: Arc<Mutex<Vec<(usize, usize, world::HttpReply)>>> = Arc::default();
	// keep-alive connections that broke before all their messages were answered: (connection, message index, error)
	let http_broke: Arc<Mutex<Vec<(usize, usize, String)>>> = Arc::default();
	let mut http_tasks = Vec::new();
	for (ci, msgs) in all.iter().enumerate() {
		if http_over_stream {
			let (end, _ctl) = world.connect(&format!("http{ci}"));
			let (msgs, out, broke) = (msgs.clone(), http_results.clone(), http_broke.clone());
			http_tasks.push(rt::spawn("http-peer", async move {
				let Ok(mut peer) = world::http_handshake(end).await else { return };
				for (mi, m) in msgs.iter().enumerate() {
					match peer.post(m.bytes.clone(), Some("application/json")).await {
						Ok(r) => {
							rt::event("http-reply", format!("{} {}", r.status, String::from_utf8_lossy(&r.body).chars().take(300).collect::<String>()));
							out.lock().unwrap().push((ci, mi, r));
						}
						Err(e) => {
							rt::event("http-error", &e);
							broke.lock().unwrap().push((ci, mi, e));
							break;
						}
					}
				}
			}));
		} else {
			for (mi, m) in msgs.iter().enumerate() {
				// the body arrives in one frame with Content-Length, or streamed in two frames without
				let fut: std::pin::Pin<Box<dyn std::future::Future<Output = _> + Send>> = if rt::chance("http_streamed_body", 1, 3) {
					rt::probe("http_streamed_body");
					let cut = rt::draw("body_cut", m.bytes.len() as u32 + 1) as usize;
					let body = super::httpframing::ScriptBody::new(vec![(m.bytes[..cut].to_vec(), 1), (m.bytes[cut..].to_vec(), rt::draw("second_frame_delay", 3))], None);
					let req = http::Request::builder().method("POST").uri("/").header("host", "sim.invalid").header("content-type", "application/json").body(body).unwrap();
					Box::pin(world.tower_call(req))
				} else {
					Box::pin(world.tower_call(world::post_request(m.bytes.clone())))
				};
				let out = http_results.clone();
				http_tasks.push(rt::spawn("http-call", async move {
					rt::yield_n(rt::draw("http_think", 3)).await;
					let r = world::collect_response(fut.await).await;
					rt::event("http-reply", format!("{} {}", r.status, String::from_utf8_lossy(&r.body).chars().take(300).collect::<String>()));
					out.lock().unwrap().push((ci, mi, r));
				}));
			}
		}
	}
	for t in http_tasks {
		let _ = t.await;
	}
	let mut ws_results = Vec::new();
	for (res, t) in tasks {
		let _ = t.await;
		ws_results.push(res);
	}

	// ---------------- oracle ----------------
	let mut nontrivial = false;
	let handler_kind = |c: &Classified| match c.quirk {
		Some(q) => q.to_string(),
		None => c.invokes.as_ref().map(|i| i.0.clone()).unwrap_or_else(|| "-".into()),
	};
	for (ci, msgs) in all.iter().enumerate() {
		let r = ws_results[ci].lock().unwrap();
		// each frame: well-formed and attributable to exactly one message
		let expecting: Vec<usize> = (0..msgs.len()).filter(|i| matches!(msgs[*i].cls.expect, Expect::Reply { .. })).collect();
		let unclassified = msgs.iter().filter(|m| m.cls.expect == Expect::Unclassified).count();
		let mut parsed: Vec<(usize, Value, Result<Value, i64>)> = Vec::new();
		for (fi, (_, f)) in r.frames.iter().enumerate() {
			match parse_response(f) {
				Err(why) => rt::violate(P, "malformed-reply", "ws", format!("frame is not a well-formed response object ({why}): {}", String::from_utf8_lossy(f))),
				Ok((id, outcome)) => parsed.push((fi, id, outcome)),
			}
		}
		// maximum bipartite matching frames <-> expecting messages (a frame may satisfy several expectations)
		let adj: Vec<Vec<usize>> = parsed.iter().map(|(_, id, out)| (0..expecting.len()).filter(|e| satisfies(&msgs[expecting[*e]].cls.expect, id, out)).collect()).collect();
		let mut match_of_exp: Vec<Option<usize>> = vec![None; expecting.len()];
		fn augment(f: usize, adj: &Vec<Vec<usize>>, seen: &mut Vec<bool>, m: &mut Vec<Option<usize>>) -> bool {
			for &e in &adj[f] {
				if seen[e] {
					continue;
				}
				seen[e] = true;
				if m[e].is_none() || augment(m[e].unwrap(), adj, seen, m) {
					m[e] = Some(f);
					return true;
				}
			}
			false
		}
		let mut frame_matched = vec![false; parsed.len()];
		for f in 0..parsed.len() {
			let mut seen = vec![false; expecting.len()];
			if augment(f, &adj, &mut seen, &mut match_of_exp) {
				frame_matched[f] = true;
			}
		}
		// (augmenting may re-assign: recompute which frames are matched)
		let mut frame_matched = vec![false; parsed.len()];
		for m in match_of_exp.iter().flatten() {
			frame_matched[*m] = true;
		}
		let mut spare = 0usize;
		for (k, (fi, id, _)) in parsed.iter().enumerate() {
			if frame_matched[k] {
				continue;
			}
			spare += 1;
			if spare > unclassified {
				let f = &r.frames[*fi].1;
				let about = msgs.iter().find(|m| matches!(&m.cls.expect, Expect::Reply{ids,..} if ids.contains(id) && *id != Value::Null));
				let sig = match about {
					Some(m) => format!("ws:wrong-content:{}", handler_kind(&m.cls)),
					None => "ws:unattributable".to_string(),
				};
				rt::violate(P, "unexpected-reply", sig, format!("reply {} matches no unanswered message (expected for that id: {:?})", String::from_utf8_lossy(f), about.map(|m| &m.cls.expect)));
			}
		}
		let unmatched: Vec<usize> = (0..expecting.len()).filter(|e| match_of_exp[*e].is_none()).map(|e| expecting[e]).collect();
		// order in which the matched replies arrived, as message indices
		let mut order_of_replies: Vec<(usize, usize)> = match_of_exp.iter().enumerate().filter_map(|(e, f)| f.map(|f| (f, expecting[e]))).collect();
		order_of_replies.sort();
		let order_of_replies: Vec<usize> = order_of_replies.into_iter().map(|x| x.1).collect();
		if !r.closed_early {
			for i in &unmatched {
				let m = &msgs[*i];
				let sig = if String::from_utf8_lossy(&m.bytes).contains("sentinel") { "ws:sentinel".to_string() } else { format!("ws:{}", handler_kind(&m.cls)) };
				rt::violate(P, "missing-reply", sig, format!("no (matching) reply to {:?}; expected {:?}", String::from_utf8_lossy(&m.bytes), m.cls.expect));
			}
		} else {
			rt::violate(P, "connection-closed", "ws", "the server closed the WebSocket connection while messages were being sent");
		}
		if order_of_replies.windows(2).any(|w| w[0] > w[1]) {
			nontrivial = true;
		}
		// HTTP side
		// a keep-alive connection keeps serving: when every request reaches the server in one piece (no fragmenting
		// stream), nothing entitles the server to close the connection after any reply
		if http_over_stream && !frag.short && frag.latency_ms == 0 {
			if let Some((_, mi, e)) = http_broke.lock().unwrap().iter().find(|b| b.0 == ci) {
				let prev = if *mi > 0 { String::from_utf8_lossy(&msgs[*mi - 1].bytes).chars().take(120).collect::<String>() } else { String::new() };
				rt::violate(P, "connection-closed", "http:keep-alive", format!("the HTTP keep-alive connection broke ({e}) at message {mi} of {}; the message before was {prev:?}", msgs.len()));
			}
		}
		let hr = http_results.lock().unwrap();
		for (mi, m) in msgs.iter().enumerate() {
			let Some((_, _, rep)) = hr.iter().find(|(c, i, _)| *c == ci && *i == mi) else {
				if !http_over_stream {
					rt::violate(P, "missing-reply", "http:no-response", format!("no HTTP response for {:?}", String::from_utf8_lossy(&m.bytes)));
				}
				continue;
			};
			match &m.cls.expect {
				Expect::Unclassified => {
					if let (Some(e), Some("formfeed-in-leading-whitespace")) = (&m.quirk_expect, m.cls.quirk) {
						// either both transports treat the form feed as whitespace (and answer as for the rest of
						// the message) or both reject the message as not JSON
						if let Expect::Reply { ids, .. } = e {
							let http_processed = parse_response(&rep.body).is_ok_and(|(id, out)| satisfies(e, &id, &out));
							let ws_processed = r.frames.iter().filter_map(|(_, f)| parse_response(f).ok()).any(|(id, out)| ids.contains(&id) && id != Value::Null && satisfies(e, &id, &out));
							let unique = ids.iter().all(|i| msgs.iter().filter(|o| String::from_utf8_lossy(&o.bytes).contains(&i.to_string())).count() == 1);
							if ids.iter().any(|i| *i != Value::Null) && m.cls.is_call && unique && http_processed != ws_processed {
								rt::violate(P, "transports-differ", "formfeed-in-leading-whitespace", format!("{:?}: processed over HTTP: {http_processed}, over WebSocket: {ws_processed}", String::from_utf8_lossy(&m.bytes)));
							}
						}
					} else if let (Some(e), Some(q)) = (&m.quirk_expect, m.cls.quirk) {
						let ok = parse_response(&rep.body).is_ok_and(|(id, out)| satisfies(e, &id, &out));
						if !ok {
							rt::violate(P, "non-json-not-rejected", q, format!("{:?} is not valid UTF-8, hence not JSON, but was answered {:?} instead of -32700 with id null", String::from_utf8_lossy(&m.bytes), String::from_utf8_lossy(&rep.body)));
						}
					}
				}
				Expect::NoReply => {
					let b = String::from_utf8_lossy(&rep.body);
					if !(b.trim().is_empty() || b.trim() == "null") {
						rt::violate(P, "unexpected-reply", "http:notification", format!("notification {:?} was answered over HTTP with {b}", String::from_utf8_lossy(&m.bytes)));
					}
				}
				e @ Expect::Reply { .. } => match parse_response(&rep.body) {
					Err(why) => rt::violate(P, "malformed-reply", format!("http:{}", handler_kind(&m.cls)), format!("HTTP body is not a well-formed response object ({why}): {} for {:?}", String::from_utf8_lossy(&rep.body), String::from_utf8_lossy(&m.bytes))),
					Ok((id, outcome)) => {
						if !satisfies(e, &id, &outcome) {
							rt::violate(P, "unexpected-reply", format!("http:wrong-content:{}", handler_kind(&m.cls)), format!("HTTP reply {} to {:?}; expected {e:?}", String::from_utf8_lossy(&rep.body), String::from_utf8_lossy(&m.bytes)));
						}
						// same response object over both transports (calls only)
						// (only when no other message of this connection carries the same id - byte flips can make two ids
						// equal - otherwise the WebSocket reply cannot be attributed by id)
						let id_unique = msgs.iter().filter(|o| matches!(&o.cls.expect, Expect::Reply { ids, .. } if ids.contains(&id))).count() == 1;
						if m.cls.is_call && id != Value::Null && id_unique {
							let ws_same = r.frames.iter().filter_map(|(_, f)| parse_response(f).ok()).find(|(i, _)| *i == id);
							if let Some((_, ws_out)) = ws_same {
								if ws_out != outcome {
									rt::violate(P, "transports-differ", handler_kind(&m.cls), format!("{:?}: HTTP answered {outcome:?}, WebSocket {ws_out:?}", String::from_utf8_lossy(&m.bytes)));
								}
							}
						}
					}
				},
			}
		}
	}
	// handlers ran exactly for the valid calls to registered names (each message was sent twice: ws + http)
	{
		let log = world.log.lock().unwrap();
		let mut want: Vec<(String, Option<String>)> = Vec::new();
		for msgs in &all {
			for m in msgs {
				if let Some(i) = &m.cls.invokes {
					want.push(i.clone());
					want.push(i.clone());
				}
			}
		}
		let mut got: Vec<(String, Option<String>)> = log.invocations.iter().map(|i| (i.method.clone(), i.params.clone())).collect();
		for w in &want {
			if let Some(p) = got.iter().position(|g| g == w) {
				got.remove(p);
			} else if !http_over_stream {
				rt::violate(P, "handler-not-run", w.0.clone(), format!("handler {} was not invoked with params {:?} for a valid call", w.0, w.1));
			}
		}
		for g in &got {
			let any_unclassified = all.iter().flatten().any(|m| m.cls.expect == Expect::Unclassified);
			if !any_unclassified {
				rt::violate(P, "spurious-handler-run", g.0.clone(), format!("handler {} ran with params {:?} although no valid call asked for it", g.0, g.1));
			}
		}
	}
	if nontrivial {
		rt::probe("nontrivial");
	}
	let _ = json!(null);
	let _ = model::REGISTERED;
	world.drop_stop_handle();
}

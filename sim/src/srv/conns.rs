//! C11 — connections never exceed max_connections and slots are reused.
//!
//! Real server (`Server::start` on the simulated listener, or one `TowerService` per connection) with
//! max_connections 0..3; histories of {open WebSocket session, HTTP call with drawn handler latency, call on an open
//! session, graceful close, abrupt abort, abort in the middle of the upgrade handshake, failed upgrade, settle}.
//! The slot model is advanced by definite events only.

use std::sync::{Arc, Mutex};
use std::time::Duration;

use futures_util::io::{AsyncReadExt, AsyncWriteExt};
use serde_json::Value;
use tokio_util::compat::TokioAsyncReadCompatExt;

use super::stream::{Ctl, Frag};
use super::world::{self, Entry, SrvCfg, World, WsOpen, WsTx};
use crate::rt;

const P: &str = "C11";

#[derive(Debug, Clone)]
enum Step {
	OpenWs,
	HttpCall,
	/// an HTTP call to a slow handler whose client resets the connection while the handler runs
	HttpCallAborted,
	WsCall(usize),
	CloseWs(usize),
	AbortWs(usize),
	/// send the upgrade request, then reset before reading the response
	AbortMidHandshake,
	/// an upgrade request the server must refuse (bad version)
	BadUpgrade,
	Settle(u32),
	/// the peer of a session goes silent (stops reading, hence sends no pongs) but keeps its socket open
	SilenceWs(usize),
	/// a call on an open session that does not finish before the end of the history
	WsHangCall(usize),
	/// the server closes this one session gracefully (connection with a stop channel of its own; not `Server::start`)
	ServerCloseWs(usize),
}

struct Session {
	tx: Option<WsTx>,
	ctl: Ctl,
	/// stamp at which the harness began the attempt (the server may hold the slot from here on)
	attempt_start: u64,
	opened: u64,
	/// stamp at which the peer started to close / aborted
	ending: Option<u64>,
	frames: Arc<Mutex<Vec<Value>>>,
	silent: Arc<tokio::sync::Notify>,
	silenced_at: Option<tokio::time::Instant>,
	/// stop channel of this connection alone
	own_stop: Option<jsonrpsee_server::ServerHandle>,
	/// nonce of the never-ending call sent on this session
	hang_nonce: Option<u64>,
	server_closing: bool,
}

#[derive(Debug, Clone)]
struct Attempt {
	kind: &'static str,
	start: u64,
	/// Some(status) for refused, None for admitted
	refused: Option<u16>,
	done: u64,
	nonce: u64,
}

pub async fn scenario() {
	let entry = *rt::pick("entry", &[Entry::Default, Entry::Tower, Entry::Default]);
	let max = rt::draw("max_conns", 4);
	// a small stream buffer makes the server's handshake response block until the peer reads (or goes away)
	let ping_mode = rt::chance("ping_mode", 1, 5);
	// (with pings on, the stream is unbounded: a silent peer behind a clogged write path keeps the server's send
	// task in a socket write that only a transport error can end; the simulated stream never errors by itself, so
	// that case is not judged)
	let cap = if ping_mode { 0 } else { *rt::pick("stream_cap", &[0usize, 0, 32, 100]) };
	let frag = if rt::chance("frag", 1, 4) { Frag { short: true, latency_ms: 2, cap } } else { Frag { cap, ..Frag::default() } };
	let sweep_base = rt::param("sweep_base").is_some();
	let n_steps = rt::draw_range("n_steps", 4, 20);
	let mut steps = Vec::new();
	for _ in 0..n_steps {
		let k = rt::draw("step", 22);
		// base histories of the fault sweep contain no aborts of their own
		let k = if (sweep_base || rt::param("fault_at").is_some()) && matches!(k, 8 | 13..=16) { 19 } else { k };
		steps.push(match k {
			0..=5 => Step::OpenWs,
			6 | 7 => Step::HttpCall,
			8 => Step::HttpCallAborted,
			9 | 10 => Step::WsCall(rt::draw("s", 4) as usize),
			11 | 12 => Step::CloseWs(rt::draw("s", 4) as usize),
			13..=15 => Step::AbortWs(rt::draw("s", 4) as usize),
			16 => Step::AbortMidHandshake,
			17 => Step::BadUpgrade,
			18 if ping_mode => Step::SilenceWs(rt::draw("s", 4) as usize),
			20 => Step::WsHangCall(rt::draw("s", 4) as usize),
			21 if entry != Entry::Default && !sweep_base && rt::param("fault_at").is_none() => Step::ServerCloseWs(rt::draw("s", 4) as usize),
			_ => Step::Settle(if ping_mode && rt::chance("long_settle", 1, 3) { 5000 } else { rt::draw_range("ms", 1, 50) }),
		});
	}
	// fault-position sweep: one abort placed before step `fault_at`
	if let Some(at) = rt::param("fault_at") {
		let f = match rt::param("fault_kind").unwrap_or(0) {
			0 => Step::AbortWs(0),
			1 => Step::AbortMidHandshake,
			2 => Step::HttpCallAborted,
			_ => Step::BadUpgrade,
		};
		steps.insert((at as usize - 1).min(steps.len()), f);
	}
	rt::event("plan", format!("entry={entry:?} max_connections={max} frag={frag:?} ping_mode={ping_mode} steps={steps:?}"));
	let mut world = World::new(SrvCfg { entry, frag, max_conns: max, auto_sub: true, ping: ping_mode, ..Default::default() });
	world.start().await;
	let mut sessions: Vec<Session> = Vec::new();
	let attempts: Arc<Mutex<Vec<Attempt>>> = Arc::default();
	let http_inflight: Arc<Mutex<Vec<(u64, Option<u64>)>>> = Arc::default(); // (handler start is in the log; (start, done))
	let mut http_tasks = Vec::new();
	// hand-written upgrade attempts that were aborted / refused: their server side may hold a slot until it is gone
	let mut raws: Vec<(u64, Ctl)> = Vec::new();
	// stamps at which virtual time had just advanced AND nothing but this task was runnable, i.e. every other task had
	// run as far as it could (a timer of the system that fires at the very instant of the settle makes its task
	// runnable next to this one: such a stamp proves nothing and is not recorded)
	let mut settles: Vec<u64> = Vec::new();
	let mut n = 0u64;
	for step in &steps {
		n += 1;
		match step {
			Step::OpenWs => {
				let start = rt::event("dir-open-ws", "");
				let (end, ctl, own_stop) = if entry == Entry::Default {
					let (e, c) = world.connect(&format!("ws{n}"));
					(e, c, None)
				} else {
					let (e, c, h) = world.connect_own_stop(&format!("ws{n}"));
					(e, c, Some(h))
				};
				match tokio::time::timeout(Duration::from_secs(5), world::ws_handshake(end)).await {
					Ok(WsOpen::Open(tx, mut rx)) => {
						let opened = rt::event("ws-open", format!("session {}", sessions.len()));
						let frames: Arc<Mutex<Vec<Value>>> = Arc::default();
						let f2 = frames.clone();
						let silent = Arc::new(tokio::sync::Notify::new());
						let s2 = silent.clone();
						rt::spawn("ws-reader", async move {
							loop {
								tokio::select! {
									biased;
									_ = s2.notified() => {
										// silent for good: neither reads nor answers pings, but keeps the socket
										std::future::pending::<()>().await;
									}
									f = world::ws_recv(&mut rx) => {
										let Some(f) = f else { break };
										f2.lock().unwrap().push(serde_json::from_slice(&f).unwrap_or(Value::Null));
									}
								}
							}
						});
						attempts.lock().unwrap().push(Attempt { kind: "ws", start, refused: None, done: opened, nonce: 0 });
						sessions.push(Session { tx: Some(tx), ctl, attempt_start: start, opened, ending: None, frames, silent, silenced_at: None, own_stop, hang_nonce: None, server_closing: false });
					}
					Ok(WsOpen::Rejected(code)) => {
						let done = rt::event("ws-rejected", format!("{code}"));
						attempts.lock().unwrap().push(Attempt { kind: "ws", start, refused: Some(code), done, nonce: 0 });
					}
					Ok(WsOpen::Failed(e)) => {
						rt::event("ws-failed", e);
					}
					Err(_) => {
						rt::violate(P, "handshake-hangs", format!("{entry:?}"), "a WebSocket upgrade got no answer within 5 s of virtual time");
					}
				}
			}
			Step::HttpCall => {
				let start = rt::event("dir-http-call", format!("{n}"));
				let (end, _ctl) = world.connect(&format!("http{n}"));
				let (attempts, inflight) = (attempts.clone(), http_inflight.clone());
				inflight.lock().unwrap().push((start, None));
				http_tasks.push(rt::spawn("http-peer", async move {
					let Ok(mut p) = world::http_handshake(end).await else { return };
					let method = if n % 3 == 0 { "slow" } else { "aecho" };
					let msg = format!("{{\"jsonrpc\":\"2.0\",\"id\":{n},\"method\":\"{method}\",\"params\":[{n}]}}");
					if let Ok(r) = p.post(msg.into_bytes(), Some("application/json")).await {
						let done = rt::event("http-reply", format!("{n} {}", r.status));
						attempts.lock().unwrap().push(Attempt { kind: "http", start, refused: if r.status == 200 { None } else { Some(r.status) }, done, nonce: n });
						if let Some(e) = inflight.lock().unwrap().iter_mut().find(|e| e.0 == start) {
							e.1 = Some(done);
						}
					}
				}));
			}
			Step::HttpCallAborted => {
				rt::event("dir-http-call-aborted", format!("{n}"));
				rt::probe("fault.http_abort_mid_call");
				let (end, ctl) = world.connect(&format!("httpabort{n}"));
				raws.push((rt::now_stamp(), ctl.clone()));
				http_tasks.push(rt::spawn("http-peer", async move {
					let Ok(mut p) = world::http_handshake(end).await else { return };
					// (a handler that would never finish on its own: the slot must come back because the client left, not
					// because the call happened to end)
					let method = if rt::chance("aborted_call_never_ends", 1, 2) { "hang" } else { "slow" };
					let msg = format!("{{\"jsonrpc\":\"2.0\",\"id\":{n},\"method\":\"{method}\",\"params\":[{n}]}}");
					let _ = tokio::time::timeout(Duration::from_millis(rt::draw_range("abort_ms", 1, 100) as u64), p.post(msg.into_bytes(), Some("application/json"))).await;
					ctl.reset();
				}));
			}
			Step::WsCall(s) => {
				let k = sessions.len();
				if k > 0 {
					if let Some(tx) = sessions[s % k].tx.as_mut() {
						let msg = format!("{{\"jsonrpc\":\"2.0\",\"id\":{n},\"method\":\"echo\",\"params\":[{n}]}}");
						let _ = tokio::time::timeout(Duration::from_millis(200), world::ws_send(tx, msg.as_bytes(), false)).await;
					}
				}
			}
			Step::CloseWs(s) | Step::AbortWs(s) => {
				let k = sessions.len();
				if k > 0 {
					let sess = &mut sessions[s % k];
					if let Some(mut tx) = sess.tx.take() {
						let st = rt::event(if matches!(step, Step::CloseWs(_)) { "dir-close-ws" } else { "dir-abort-ws" }, format!("session {}", s % k));
						sess.ending.get_or_insert(st);
						if matches!(step, Step::CloseWs(_)) {
							let _ = tokio::time::timeout(Duration::from_millis(200), tx.close()).await;
						} else {
							rt::probe("fault.peer_abort");
							sess.ctl.reset();
						}
						drop(tx);
					}
				}
			}
			Step::AbortMidHandshake | Step::BadUpgrade => {
				let bad = matches!(step, Step::BadUpgrade);
				rt::event(if bad { "dir-bad-upgrade" } else { "dir-abort-mid-handshake" }, "");
				rt::probe(if bad { "fault.bad_upgrade" } else { "fault.abort_mid_handshake" });
				let (end, ctl) = world.connect(&format!("raw{n}"));
				raws.push((rt::now_stamp(), ctl.clone()));
				let mut io = end.compat();
				let version = if bad { "7" } else { "13" };
				let req = format!("GET / HTTP/1.1\r\nhost: sim.invalid\r\nupgrade: websocket\r\nconnection: upgrade\r\nsec-websocket-key: dGhlIHNhbXBsZSBub25jZQ==\r\nsec-websocket-version: {version}\r\n\r\n");
				let _ = io.write_all(req.as_bytes()).await;
				let _ = io.flush().await;
				if bad {
					let mut buf = [0u8; 512];
					let _ = tokio::time::timeout(Duration::from_millis(100), io.read(&mut buf)).await;
				} else {
					rt::yield_n(rt::draw("abort_after", 4)).await;
					ctl.reset();
				}
				drop(io);
			}
			Step::SilenceWs(s) => {
				let k = sessions.len();
				// (a session the server is already closing is left alone: a drain that waits for a call does not look at pings)
				if k > 0 && sessions[s % k].tx.is_some() && sessions[s % k].silenced_at.is_none() && sessions[s % k].ending.is_none() && !sessions[s % k].server_closing {
					rt::event("dir-silence-ws", format!("session {}", s % k));
					rt::probe("fault.silent_peer");
					sessions[s % k].silent.notify_one();
					sessions[s % k].silenced_at = Some(tokio::time::Instant::now());
					// from the model's point of view the session may end any time from now on
					sessions[s % k].ending = Some(rt::now_stamp());
				}
			}
			Step::WsHangCall(s) => {
				let k = sessions.len();
				if k > 0 && sessions[s % k].hang_nonce.is_none() {
					if let Some(tx) = sessions[s % k].tx.as_mut() {
						rt::event("dir-ws-hang-call", format!("session {} nonce {n}", s % k));
						let msg = format!("{{\"jsonrpc\":\"2.0\",\"id\":{n},\"method\":\"hang\",\"params\":[{n}]}}");
						if matches!(tokio::time::timeout(Duration::from_millis(200), world::ws_send(tx, msg.as_bytes(), false)).await, Ok(Ok(()))) {
							sessions[s % k].hang_nonce = Some(n);
						}
					}
				}
			}
			Step::ServerCloseWs(s) => {
				let k = sessions.len();
				if k > 0 {
					let sess = &mut sessions[s % k];
					if let (Some(h), true, None) = (sess.own_stop.as_ref(), sess.tx.is_some(), sess.ending) {
						let st = rt::event("dir-server-close-ws", format!("session {}", s % k));
						rt::probe("fault.server_side_close");
						let _ = h.stop();
						sess.server_closing = true;
						// a call that is executing keeps the connection (and its slot) until it has been answered, as long
						// as the peer stays; otherwise the session may be over any time from now on
						let executing = sess.hang_nonce.is_some_and(|hn| world.log.lock().unwrap().invocations.iter().any(|i| i.method == "hang" && i.params.as_deref() == Some(&format!("[{hn}]"))));
						if executing {
							rt::probe("server_close_while_call_executing");
						} else {
							sess.ending = Some(st);
						}
					}
				}
			}
			Step::Settle(ms) => {
				tokio::time::sleep(Duration::from_millis(*ms as u64)).await;
				let idle = rt::nothing_else_runnable();
				let st = rt::event("settled", "");
				if idle {
					settles.push(st);
				} else {
					rt::probe("settle_while_others_runnable");
				}
			}
		}
		rt::yield_n(rt::draw("between", 3)).await;
	}
	// ---- the limit can be reached again after everything has ended ----
	// silent peers keep their sockets open: the server must close those sessions itself (inactivity) and free
	// their slots; everything else is aborted by the peer
	let mut kept_silent = Vec::new();
	for s in sessions.iter_mut() {
		if s.silenced_at.is_some() {
			if let Some(tx) = s.tx.take() {
				kept_silent.push(tx);
			}
			continue;
		}
		if let Some(tx) = s.tx.take() {
			let st = rt::event("dir-abort-ws", "final");
			s.ending.get_or_insert(st);
			s.ctl.reset();
			drop(tx);
		}
	}
	for t in http_tasks {
		let _ = tokio::time::timeout(Duration::from_secs(30), t).await;
	}
	if ping_mode {
		// pings keep timers alive for ever: wait a bounded time instead (well beyond the inactivity limit)
		tokio::time::sleep(Duration::from_secs(15)).await;
	} else {
		rt::quiesce().await;
	}
	let refill_start = rt::event("refill", format!("max={max}"));
	let mut refill: Vec<(WsTx, Ctl)> = Vec::new();
	for i in 0..=max {
		let (end, ctl) = world.connect(&format!("refill{i}"));
		match tokio::time::timeout(Duration::from_secs(5), world::ws_handshake(end)).await {
			Ok(WsOpen::Open(tx, _rx)) => {
				if i == max {
					rt::violate(P, "limit-exceeded", format!("refill:{entry:?}"), format!("with max_connections={max}, session number {} was admitted while {max} sessions were open", i + 1));
				}
				refill.push((tx, ctl));
			}
			Ok(WsOpen::Rejected(429)) => {
				if i < max {
					rt::violate(P, "slot-leaked", format!("{entry:?}"), format!("after every earlier connection had ended only {i} of max_connections={max} sessions could be opened (history: {steps:?})"));
					break;
				}
			}
			Ok(WsOpen::Rejected(c)) => {
				rt::violate(P, "wrong-refusal", format!("{c}"), format!("a connection beyond / within the limit was answered with status {c}"));
				break;
			}
			_ => break,
		}
	}
	let _ = refill_start;
	if sweep_base {
		rt::probe_n("steps", steps.len() as u64);
	}
	// ---- the limit is also what a request sees that comes in through the library's GET proxy: refused with 429, and
	// the mapped method does not run
	if rt::chance("proxy_refusal", 1, 8) {
		rt::probe("proxy_refusal");
		// (what happens here is kept out of the log the oracle over the history reads)
		let keep = {
			let l = world.log.lock().unwrap();
			(l.invocations.len(), l.guard_obs.len(), l.mw.len())
		};
		let (stop, _handle) = jsonrpsee_server::stop_channel();
		let http_mw = tower::ServiceBuilder::new().layer(jsonrpsee_server::middleware::http::ProxyGetRequestLayer::new([("/health", "echo")]).expect("valid path"));
		let svc = jsonrpsee_server::Server::builder().set_config(jsonrpsee_server::ServerConfig::builder().max_connections(1).build()).set_http_middleware(http_mw).to_service_builder().build(world.methods.clone(), stop);
		let mut holder = svc.clone();
		let hold = rt::spawn("slot-holder", async move {
			let body = b"{\"jsonrpc\":\"2.0\",\"id\":1,\"method\":\"slow\",\"params\":[1]}".to_vec();
			let _ = tower::Service::call(&mut holder, world::post_request(body)).await;
		});
		tokio::time::sleep(Duration::from_millis(50)).await;
		let before = world.log.lock().unwrap().invocations.iter().filter(|i| i.method == "echo").count();
		let mut svc2 = svc.clone();
		let req = http::Request::builder().method("GET").uri("/health").header("host", "sim.invalid").body(http_body_util::Full::new(bytes::Bytes::new())).unwrap();
		match tower::Service::call(&mut svc2, req).await {
			Ok(r) => {
				let rep = world::collect_response(r).await;
				let ran = world.log.lock().unwrap().invocations.iter().filter(|i| i.method == "echo").count() - before;
				rt::event("proxy-refusal-reply", format!("{} {}", rep.status, String::from_utf8_lossy(&rep.body)));
				if rep.status != 429 {
					rt::violate(P, "wrong-refusal", format!("get-proxy:{}", rep.status), format!("with max_connections=1 and one request being processed, GET /health through the GET proxy was answered {} {:?} instead of 429", rep.status, String::from_utf8_lossy(&rep.body)));
				}
				if ran != 0 {
					rt::violate(P, "handler-ran-for-refused", "get-proxy", "the mapped method ran for a request beyond the limit");
				}
			}
			Err(e) => {
				rt::event("proxy-service-error", format!("{e}"));
			}
		}
		let _ = tokio::time::timeout(Duration::from_secs(2), hold).await;
		let mut l = world.log.lock().unwrap();
		l.invocations.truncate(keep.0);
		l.guard_obs.truncate(keep.1);
		l.mw.truncate(keep.2);
	}
	// ---------------- oracle over the history ----------------
	let log = world.log.lock().unwrap();
	// observations made by handlers
	for (st, m, avail) in &log.guard_obs {
		if *m != max as usize || *avail > *m {
			rt::violate(P, "guard-observation", "bounds", format!("a handler saw max={m} available={avail} at #{st} (configured {max})"));
		}
	}
	let att = attempts.lock().unwrap().clone();
	let alive_ws_at = |s: u64| sessions.iter().filter(|x| x.opened < s && x.ending.is_none_or(|e| e > s)).count();
	let mut nontrivial = false;
	for a in &att {
		// sessions definitely alive during the whole attempt
		let definitely_alive = sessions.iter().filter(|x| x.opened < a.start && x.ending.is_none_or(|e| e > a.done)).count();
		// everything earlier definitely finished?
		// (anything that began before the attempt was over could have held a slot while it was decided; a slot is
		// definitely free once the server side of the connection is gone AND the system has been idle since - the
		// permit is released a few polls after the stream)
		let done_before = |d: Option<u64>| d.is_some_and(|d| settles.iter().any(|t| d < *t && *t < a.start));
		let all_finished = sessions.iter().filter(|x| x.attempt_start < a.done && x.attempt_start != a.start).all(|x| done_before(x.ctl.server_dropped()))
			&& http_inflight.lock().unwrap().iter().filter(|h| h.0 < a.done && h.0 != a.start).all(|h| done_before(h.1))
			&& att.iter().filter(|o| o.kind == "ws" && o.refused.is_some() && o.start < a.done && o.start != a.start).all(|o| done_before(Some(o.done)))
			&& raws.iter().filter(|r| r.0 < a.done).all(|r| done_before(r.1.server_dropped()));
		match a.refused {
			None => {
				if definitely_alive >= max as usize {
					rt::violate(P, "limit-exceeded", format!("{}:{entry:?}", a.kind), format!("a {} attempt at #{} was admitted although {definitely_alive} WebSocket sessions were open (max_connections={max})", a.kind, a.start));
				}
				if definitely_alive > 0 {
					nontrivial = true;
				}
			}
			Some(429) => {
				if all_finished && max > 0 {
					let sig = if sessions.iter().any(|x| x.ending.is_some()) { "after-session-end" } else { "no-session" };
					rt::violate(P, "slot-leaked", format!("{}:{sig}:{entry:?}", a.kind), format!("a {} attempt at #{} was refused with 429 although every earlier connection had ended (max_connections={max})", a.kind, a.start));
				}
				nontrivial = true;
			}
			Some(c) => {
				if a.kind == "ws" {
					rt::violate(P, "wrong-refusal", format!("{c}"), format!("a WebSocket upgrade was refused with status {c} (expected 429 or success)"));
				}
			}
		}
	}
	// refused attempts run no handler: every handler invocation belongs to an admitted attempt (ids are unique)
	for a in att.iter().filter(|a| a.kind == "http" && a.refused.is_some()) {
		if log.invocations.iter().any(|i| i.params.as_deref() == Some(&format!("[{}]", a.nonce))) {
			rt::violate(P, "handler-ran-for-refused", format!("{entry:?}"), format!("HTTP call {} was refused with {:?} but its handler ran", a.nonce, a.refused));
		}
	}
	let _ = alive_ws_at(0);
	// HTTP handlers that ran to completion: never more than max of them at once (an HTTP request counts while it is
	// processed). Handlers cancelled together with their connection never complete and are not counted.
	let spans: Vec<(u64, u64, String)> = log
		.mw
		.iter()
		.filter(|e| e.kind == "call-start" && (e.method == "aecho" || e.method == "slow"))
		.filter_map(|st| log.mw.iter().find(|e| e.kind == "call-end" && e.id == st.id && e.method == st.method && e.stamp > st.stamp).map(|en| (st.stamp, en.stamp, st.id.clone())))
		.collect();
	for (s0, _e0, id0) in &spans {
		let running = spans.iter().filter(|(s1, e1, id1)| id1 != id0 && s1 < s0 && e1 > s0).count();
		let ws_open = sessions.iter().filter(|x| x.opened < *s0 && x.ending.is_none_or(|e| e > *s0)).count();
		if running + ws_open + 1 > max as usize {
			rt::violate(P, "limit-exceeded", format!("http-handlers-overlap:{entry:?}"), format!("HTTP call {id0} started at #{s0} while {running} other HTTP handler(s) were running and {ws_open} WebSocket session(s) were open (max_connections={max})"));
		}
	}
	if nontrivial {
		rt::probe("nontrivial");
	}
	drop(log);
	drop(refill);
	drop(kept_silent);
	world.release_hangs();
	for s in sessions.iter() {
		s.ctl.reset();
	}
}

//! C11 — connections never exceed max_connections and slots are reused.
//!
//! Real server (`Server::start` on the simulated listener, or one `TowerService` per connection) with
//! max_connections 0..3; histories of {open WebSocket session, HTTP call with drawn handler latency, call on an open
//! session, graceful close, abrupt abort, abort in the middle of the upgrade handshake, failed upgrade, settle}.
//! The slot model is advanced by definite events only.

use std::sync::{Arc, Mutex};
use std::time::Duration;

use futures_util::io::{AsyncReadExt, AsyncWriteExt};
use serde_json::Value;
use tokio_util::compat::TokioAsyncReadCompatExt;

use super::stream::{Ctl, Frag};
use super::world::{self, Entry, SrvCfg, World, WsOpen, WsTx};
use crate::rt;

const P: &str = "C11";

#[derive(Debug, Clone)]
enum Step {
	OpenWs,
	HttpCall,
	WsCall(usize),
	CloseWs(usize),
	AbortWs(usize),
	/// send the upgrade request, then reset before reading the response
	AbortMidHandshake,
	/// an upgrade request the server must refuse (bad version)
	BadUpgrade,
	Settle(u32),
}

struct Session {
	tx: Option<WsTx>,
	ctl: Ctl,
	/// stamp at which the harness began the attempt (the server may hold the slot from here on)
	attempt_start: u64,
	opened: u64,
	/// stamp at which the peer started to close / aborted
	ending: Option<u64>,
	frames: Arc<Mutex<Vec<Value>>>,
}

#[derive(Debug, Clone)]
struct Attempt {
	kind: &'static str,
	start: u64,
	/// Some(status) for refused, None for admitted
	refused: Option<u16>,
	done: u64,
	nonce: u64,
}

pub async fn scenario() {
	let entry = *rt::pick("entry", &[Entry::Default, Entry::Tower, Entry::Default]);
	let max = rt::draw("max_conns", 4);
	// a small stream buffer makes the server's handshake response block until the peer reads (or goes away)
	let cap = *rt::pick("stream_cap", &[0usize, 0, 32, 100]);
	let frag = if rt::chance("frag", 1, 4) { Frag { short: true, latency_ms: 2, cap } } else { Frag { cap, ..Frag::default() } };
	let n_steps = rt::draw_range("n_steps", 4, 20);
	let mut steps = Vec::new();
	for _ in 0..n_steps {
		steps.push(match rt::draw("step", 20) {
			0..=5 => Step::OpenWs,
			6..=8 => Step::HttpCall,
			9 | 10 => Step::WsCall(rt::draw("s", 4) as usize),
			11 | 12 => Step::CloseWs(rt::draw("s", 4) as usize),
			13..=15 => Step::AbortWs(rt::draw("s", 4) as usize),
			16 => Step::AbortMidHandshake,
			17 => Step::BadUpgrade,
			_ => Step::Settle(rt::draw_range("ms", 1, 50)),
		});
	}
	rt::event("plan", format!("entry={entry:?} max_connections={max} frag={frag:?} steps={steps:?}"));
	let mut world = World::new(SrvCfg { entry, frag, max_conns: max, auto_sub: true, ..Default::default() });
	world.start().await;
	let mut sessions: Vec<Session> = Vec::new();
	let attempts: Arc<Mutex<Vec<Attempt>>> = Arc::default();
	let http_inflight: Arc<Mutex<Vec<(u64, Option<u64>)>>> = Arc::default(); // (handler start is in the log; (start, done))
	let mut http_tasks = Vec::new();
	// hand-written upgrade attempts that were aborted / refused: their server side may hold a slot until it is gone
	let mut raws: Vec<(u64, Ctl)> = Vec::new();
	// stamps at which virtual time had just advanced, i.e. every task had run as far as it could
	let mut settles: Vec<u64> = Vec::new();
	let mut n = 0u64;
	for step in &steps {
		n += 1;
		match step {
			Step::OpenWs => {
				let start = rt::event("dir-open-ws", "");
				let (end, ctl) = world.connect(&format!("ws{n}"));
				match tokio::time::timeout(Duration::from_secs(5), world::ws_handshake(end)).await {
					Ok(WsOpen::Open(tx, mut rx)) => {
						let opened = rt::event("ws-open", format!("session {}", sessions.len()));
						let frames: Arc<Mutex<Vec<Value>>> = Arc::default();
						let f2 = frames.clone();
						rt::spawn("ws-reader", async move {
							while let Some(f) = world::ws_recv(&mut rx).await {
								f2.lock().unwrap().push(serde_json::from_slice(&f).unwrap_or(Value::Null));
							}
						});
						attempts.lock().unwrap().push(Attempt { kind: "ws", start, refused: None, done: opened, nonce: 0 });
						sessions.push(Session { tx: Some(tx), ctl, attempt_start: start, opened, ending: None, frames });
					}
					Ok(WsOpen::Rejected(code)) => {
						let done = rt::event("ws-rejected", format!("{code}"));
						attempts.lock().unwrap().push(Attempt { kind: "ws", start, refused: Some(code), done, nonce: 0 });
					}
					Ok(WsOpen::Failed(e)) => {
						rt::event("ws-failed", e);
					}
					Err(_) => {
						rt::violate(P, "handshake-hangs", format!("{entry:?}"), "a WebSocket upgrade got no answer within 5 s of virtual time");
					}
				}
			}
			Step::HttpCall => {
				let start = rt::event("dir-http-call", format!("{n}"));
				let (end, _ctl) = world.connect(&format!("http{n}"));
				let (attempts, inflight) = (attempts.clone(), http_inflight.clone());
				inflight.lock().unwrap().push((start, None));
				http_tasks.push(rt::spawn("http-peer", async move {
					let Ok(mut p) = world::http_handshake(end).await else { return };
					let msg = format!("{{\"jsonrpc\":\"2.0\",\"id\":{n},\"method\":\"aecho\",\"params\":[{n}]}}");
					if let Ok(r) = p.post(msg.into_bytes(), Some("application/json")).await {
						let done = rt::event("http-reply", format!("{n} {}", r.status));
						attempts.lock().unwrap().push(Attempt { kind: "http", start, refused: if r.status == 200 { None } else { Some(r.status) }, done, nonce: n });
						if let Some(e) = inflight.lock().unwrap().iter_mut().find(|e| e.0 == start) {
							e.1 = Some(done);
						}
					}
				}));
			}
			Step::WsCall(s) => {
				let k = sessions.len();
				if k > 0 {
					if let Some(tx) = sessions[s % k].tx.as_mut() {
						let msg = format!("{{\"jsonrpc\":\"2.0\",\"id\":{n},\"method\":\"echo\",\"params\":[{n}]}}");
						let _ = world::ws_send(tx, msg.as_bytes(), false).await;
					}
				}
			}
			Step::CloseWs(s) | Step::AbortWs(s) => {
				let k = sessions.len();
				if k > 0 {
					let sess = &mut sessions[s % k];
					if let Some(mut tx) = sess.tx.take() {
						let st = rt::event(if matches!(step, Step::CloseWs(_)) { "dir-close-ws" } else { "dir-abort-ws" }, format!("session {}", s % k));
						sess.ending = Some(st);
						if matches!(step, Step::CloseWs(_)) {
							let _ = tx.close().await;
						} else {
							rt::probe("fault.peer_abort");
							sess.ctl.reset();
						}
						drop(tx);
					}
				}
			}
			Step::AbortMidHandshake | Step::BadUpgrade => {
				let bad = matches!(step, Step::BadUpgrade);
				rt::event(if bad { "dir-bad-upgrade" } else { "dir-abort-mid-handshake" }, "");
				rt::probe(if bad { "fault.bad_upgrade" } else { "fault.abort_mid_handshake" });
				let (end, ctl) = world.connect(&format!("raw{n}"));
				raws.push((rt::now_stamp(), ctl.clone()));
				let mut io = end.compat();
				let version = if bad { "7" } else { "13" };
				let req = format!("GET / HTTP/1.1\r\nhost: sim.invalid\r\nupgrade: websocket\r\nconnection: upgrade\r\nsec-websocket-key: dGhlIHNhbXBsZSBub25jZQ==\r\nsec-websocket-version: {version}\r\n\r\n");
				let _ = io.write_all(req.as_bytes()).await;
				let _ = io.flush().await;
				if bad {
					let mut buf = [0u8; 512];
					let _ = tokio::time::timeout(Duration::from_millis(100), io.read(&mut buf)).await;
				} else {
					rt::yield_n(rt::draw("abort_after", 4)).await;
					ctl.reset();
				}
				drop(io);
			}
			Step::Settle(ms) => {
				tokio::time::sleep(Duration::from_millis(*ms as u64)).await;
				settles.push(rt::event("settled", ""));
			}
		}
		rt::yield_n(rt::draw("between", 3)).await;
	}
	// ---- the limit can be reached again after everything has ended ----
	for s in sessions.iter_mut() {
		if let Some(tx) = s.tx.take() {
			s.ending = Some(rt::event("dir-abort-ws", "final"));
			s.ctl.reset();
			drop(tx);
		}
	}
	for t in http_tasks {
		let _ = tokio::time::timeout(Duration::from_secs(30), t).await;
	}
	rt::quiesce().await;
	let refill_start = rt::event("refill", format!("max={max}"));
	let mut refill: Vec<(WsTx, Ctl)> = Vec::new();
	for i in 0..=max {
		let (end, ctl) = world.connect(&format!("refill{i}"));
		match tokio::time::timeout(Duration::from_secs(5), world::ws_handshake(end)).await {
			Ok(WsOpen::Open(tx, _rx)) => {
				if i == max {
					rt::violate(P, "limit-exceeded", format!("refill:{entry:?}"), format!("with max_connections={max}, session number {} was admitted while {max} sessions were open", i + 1));
				}
				refill.push((tx, ctl));
			}
			Ok(WsOpen::Rejected(429)) => {
				if i < max {
					rt::violate(P, "slot-leaked", format!("{entry:?}"), format!("after every earlier connection had ended only {i} of max_connections={max} sessions could be opened (history: {steps:?})"));
					break;
				}
			}
			Ok(WsOpen::Rejected(c)) => {
				rt::violate(P, "wrong-refusal", format!("{c}"), format!("a connection beyond / within the limit was answered with status {c}"));
				break;
			}
			_ => break,
		}
	}
	let _ = refill_start;
	// ---------------- oracle over the history ----------------
	let log = world.log.lock().unwrap();
	// observations made by handlers
	for (st, m, avail) in &log.guard_obs {
		if *m != max as usize || *avail > *m {
			rt::violate(P, "guard-observation", "bounds", format!("a handler saw max={m} available={avail} at #{st} (configured {max})"));
		}
	}
	let att = attempts.lock().unwrap().clone();
	let alive_ws_at = |s: u64| sessions.iter().filter(|x| x.opened < s && x.ending.is_none_or(|e| e > s)).count();
	let mut nontrivial = false;
	for a in &att {
		// sessions definitely alive during the whole attempt
		let definitely_alive = sessions.iter().filter(|x| x.opened < a.start && x.ending.is_none_or(|e| e > a.done)).count();
		// everything earlier definitely finished?
		// (anything that began before the attempt was over could have held a slot while it was decided; a slot is
		// definitely free once the server side of the connection is gone AND the system has been idle since - the
		// permit is released a few polls after the stream)
		let done_before = |d: Option<u64>| d.is_some_and(|d| settles.iter().any(|t| d < *t && *t < a.start));
		let all_finished = sessions.iter().filter(|x| x.attempt_start < a.done && x.attempt_start != a.start).all(|x| done_before(x.ctl.server_dropped()))
			&& http_inflight.lock().unwrap().iter().filter(|h| h.0 < a.done && h.0 != a.start).all(|h| done_before(h.1))
			&& att.iter().filter(|o| o.kind == "ws" && o.refused.is_some() && o.start < a.done && o.start != a.start).all(|o| done_before(Some(o.done)))
			&& raws.iter().filter(|r| r.0 < a.done).all(|r| done_before(r.1.server_dropped()));
		match a.refused {
			None => {
				if definitely_alive >= max as usize {
					rt::violate(P, "limit-exceeded", format!("{}:{entry:?}", a.kind), format!("a {} attempt at #{} was admitted although {definitely_alive} WebSocket sessions were open (max_connections={max})", a.kind, a.start));
				}
				if definitely_alive > 0 {
					nontrivial = true;
				}
			}
			Some(429) => {
				if all_finished && max > 0 {
					let sig = if sessions.iter().any(|x| x.ending.is_some()) { "after-session-end" } else { "no-session" };
					rt::violate(P, "slot-leaked", format!("{}:{sig}:{entry:?}", a.kind), format!("a {} attempt at #{} was refused with 429 although every earlier connection had ended (max_connections={max})", a.kind, a.start));
				}
				nontrivial = true;
			}
			Some(c) => {
				if a.kind == "ws" {
					rt::violate(P, "wrong-refusal", format!("{c}"), format!("a WebSocket upgrade was refused with status {c} (expected 429 or success)"));
				}
			}
		}
	}
	// refused attempts run no handler: every handler invocation belongs to an admitted attempt (ids are unique)
	for a in att.iter().filter(|a| a.kind == "http" && a.refused.is_some()) {
		if log.invocations.iter().any(|i| i.params.as_deref() == Some(&format!("[{}]", a.nonce))) {
			rt::violate(P, "handler-ran-for-refused", format!("{entry:?}"), format!("HTTP call {} was refused with {:?} but its handler ran", a.nonce, a.refused));
		}
	}
	let _ = alive_ws_at(0);
	if nontrivial {
		rt::probe("nontrivial");
	}
	drop(log);
	drop(refill);
}

//! C19 — only JSON POSTs reach RPC; body chunking never changes the answer.
//!
//! The request body is a harness `http_body::Body` that yields a drawn frame sequence (1-6 data frames incl. empty
//! and whitespace-only ones, optional trailers) with `Pending` and virtual delays between frames, with or without
//! `Content-Length`; alternatively the request travels through hyper with chunked transfer encoding over a
//! fragmenting simulated stream. Methods and content-type strings come from a small grammar.

use std::pin::Pin;
use std::task::{Context, Poll};
use std::time::Duration;

use bytes::Bytes;
use http_body::Frame;
use serde_json::Value;

use super::stream::Frag;
use super::world::{self, Entry, SrvCfg, World};
use crate::rt;

const P: &str = "C19";

/// A body that yields scripted frames; between frames it may return Pending (self-wake) or sleep.
pub struct ScriptBody {
	frames: std::collections::VecDeque<(Vec<u8>, u32)>, // (data, delay kind before it: 0 none, 1 pending once, 2 sleep)
	trailers: bool,
	sleep: Option<Pin<Box<tokio::time::Sleep>>>,
	yielded: bool,
	honest_len: Option<u64>,
}

impl ScriptBody {
	pub fn new(frames: Vec<(Vec<u8>, u32)>, honest_len: Option<u64>) -> Self {
		ScriptBody { frames: frames.into(), trailers: false, sleep: None, yielded: false, honest_len }
	}
}

impl http_body::Body for ScriptBody {
	type Data = Bytes;
	type Error = std::convert::Infallible;

	fn poll_frame(mut self: Pin<&mut Self>, cx: &mut Context<'_>) -> Poll<Option<Result<Frame<Bytes>, Self::Error>>> {
		let this = &mut *self;
		if let Some(s) = this.sleep.as_mut() {
			if s.as_mut().poll(cx).is_pending() {
				return Poll::Pending;
			}
			this.sleep = None;
			this.yielded = true;
		}
		match this.frames.front() {
			Some((_, kind)) => {
				if !this.yielded {
					match kind {
						1 => {
							this.yielded = true;
							cx.waker().wake_by_ref();
							return Poll::Pending;
						}
						2 => {
							let mut s = Box::pin(tokio::time::sleep(Duration::from_millis(3)));
							let _ = s.as_mut().poll(cx);
							this.sleep = Some(s);
							return Poll::Pending;
						}
						_ => {}
					}
				}
				this.yielded = false;
				let (d, _) = this.frames.pop_front().unwrap();
				Poll::Ready(Some(Ok(Frame::data(Bytes::from(d)))))
			}
			None if this.trailers => {
				this.trailers = false;
				let mut h = http::HeaderMap::new();
				h.insert("x-trailer", http::HeaderValue::from_static("1"));
				Poll::Ready(Some(Ok(Frame::trailers(h))))
			}
			None => Poll::Ready(None),
		}
	}

	fn size_hint(&self) -> http_body::SizeHint {
		match self.honest_len {
			Some(n) => http_body::SizeHint::with_exact(n),
			None => http_body::SizeHint::default(),
		}
	}
}

fn split_body(body: &[u8]) -> Vec<(Vec<u8>, u32)> {
	let n_cuts = rt::draw("n_cuts", 6);
	let mut cuts: Vec<usize> = (0..n_cuts)
		.map(|_| match rt::draw("cut_kind", 3) {
			// near the start (inside / right after the leading whitespace) is where the sniffing lives
			// (the leading whitespace may be long - around the 127-byte sniffing window - and split into several chunks)
			0 => rt::draw("cut_lo", (body.len().min(body.iter().position(|b| !b.is_ascii_whitespace()).unwrap_or(0) + 12) + 1) as u32) as usize,
			1 => body.iter().position(|b| !b.is_ascii_whitespace()).unwrap_or(0),
			_ => rt::draw("cut_any", (body.len() + 1) as u32) as usize,
		})
		.collect();
	cuts.push(0);
	cuts.push(body.len());
	cuts.sort();
	let mut out = Vec::new();
	for w in cuts.windows(2) {
		// duplicates among the cuts give empty frames
		out.push((body[w[0]..w[1]].to_vec(), rt::draw("frame_delay", 3)));
	}
	if out.is_empty() {
		out.push((body.to_vec(), 0));
	}
	out
}

thread_local! {
	/// set while the reference request of the differential oracle is being built
	static REFERENCE: std::cell::Cell<bool> = const { std::cell::Cell::new(false) };
}

const ACCEPTED: [&str; 6] = ["application/json", "application/json; charset=utf-8", "application/json;charset=utf-8", "application/json-rpc", "application/json-rpc;charset=utf-8", "application/json-rpc; charset=utf-8"];
const REJECTED: [&str; 8] = ["application/jsonx", "text/json", "application/json; charset=latin1", "application/json ;charset=utf-8", "text/plain", "application/x-www-form-urlencoded", "json", "application/json,application/json"];

fn random_case(s: &str) -> String {
	s.chars().map(|c| if rt::chance("case", 1, 3) { c.to_ascii_uppercase() } else { c }).collect()
}

pub async fn scenario() {
	let entry = *rt::pick("entry", &[Entry::Tower, Entry::Default, Entry::LowLevel]);
	let frag = if rt::chance("frag", 1, 2) { Frag { short: true, latency_ms: 3, cap: 0 } } else { Frag::default() };
	// in some runs the request limit equals the size of the bodies that are sent (exactly at the limit is accepted,
	// whatever the framing)
	let exact_limit: Option<usize> = if rt::chance("exact_limit", 1, 5) { Some(150) } else { None };
	let mut world = World::new(SrvCfg { entry, frag, max_req: exact_limit.map(|l| l as u32).unwrap_or(10 * 1024 * 1024), ..Default::default() });
	world.start().await;
	let n_reqs = rt::draw_range("n_reqs", 1, 4);
	let over_stream = rt::chance("over_stream", 1, 3);
	rt::event("plan", format!("entry={entry:?} frag={frag:?} reqs={n_reqs} over_stream={over_stream}"));
	let mut peer = if over_stream {
		let (end, _ctl) = world.connect("http0");
		let io = hyper_util::rt::TokioIo::new(end);
		match hyper::client::conn::http1::handshake::<_, ScriptBody>(io).await {
			Ok((sender, conn)) => {
				rt::spawn("http-peer-conn", async move {
					let _ = conn.await;
				});
				Some(sender)
			}
			Err(_) => None,
		}
	} else {
		None
	};
	let mut nontrivial = false;
	for k in 0..n_reqs {
		// ---- the request ----
		let method = match rt::draw("method", 10) {
			0 => "GET",
			1 => "PUT",
			2 => "DELETE",
			3 => "OPTIONS",
			4 => "PATCH",
			_ => "POST",
		};
		// content type: (header values, expectation: Some(true) accepted / Some(false) rejected / None unspecified)
		let (cts, ct_expect): (Vec<String>, Option<bool>) = match rt::draw("ct", 12) {
			0 => (vec![], Some(false)),
			1 | 2 => (vec![rt::pick("rej", &REJECTED).to_string()], Some(false)),
			3 => (vec![rt::pick("acc", &ACCEPTED).to_string(), rt::pick("rej", &REJECTED).to_string()], None),
			4 => (vec![rt::pick("rej", &REJECTED).to_string(), rt::pick("acc", &ACCEPTED).to_string()], None),
			_ => (vec![random_case(*rt::pick("acc", &ACCEPTED))], Some(true)),
		};
		let lead_n = if rt::chance("long_lead", 1, 6) { *rt::pick("lead_long_n", &[100u32, 120, 126, 127, 128, 129, 140]) } else { rt::draw("lead_ws", 4) * rt::draw_range("lead_ws_n", 1, 10) };
		let lead: String = (0..lead_n).map(|_| *rt::pick("wsch", &[' ', '\n', '\t', '\r'])).collect();
		let nonce = 100 + k;
		let payload = match rt::draw("payload", 8) {
			0 => format!("{lead}[{{\"jsonrpc\":\"2.0\",\"id\":1,\"method\":\"echo\",\"params\":[{nonce}]}},{{\"jsonrpc\":\"2.0\",\"id\":2,\"method\":\"add\",\"params\":[1,2]}}]"),
			1 => format!("{lead}{{\"jsonrpc\":\"2.0\",\"method\":\"echo\",\"params\":[{nonce}]}}"),
			2 => format!("{lead}xyz"),
			3 => lead.clone(),
			4 => format!("{lead}{{\"jsonrpc\":\"2.0\",\"id\":\"a\",\"method\":\"nope\"}}  \n"),
			_ => format!("{lead}{{\"jsonrpc\":\"2.0\",\"id\":{nonce},\"method\":\"echo\",\"params\":[{nonce},\"  [x]  \"]}}"),
		};
		let payload = match exact_limit {
			Some(l) => {
				// a call padded to exactly the limit, one byte less, or beyond it (refused - in the same way whatever the
				// framing)
				let l = match rt::draw("around_limit", 4) {
					0 => l,
					1 => l - 1,
					2 => l + 1,
					_ => l + 30,
				};
				let lead = if lead.len() > 40 { String::new() } else { lead.clone() };
				let base = format!("{lead}{{\"jsonrpc\":\"2.0\",\"id\":{nonce},\"method\":\"echo\",\"params\":[\"\"]}}");
				if l > 150 && rt::chance("garbage_beyond_limit", 1, 5) {
					// not JSON at all, and too large
					format!("{lead}{}", "x".repeat(l - lead.len()))
				} else if rt::chance("trailing_pad", 1, 3) {
					// a complete call followed by whitespace: what counts is the size of the body, not of the call
					format!("{base}{}", " ".repeat(l.saturating_sub(base.len())))
				} else {
					format!("{lead}{{\"jsonrpc\":\"2.0\",\"id\":{nonce},\"method\":\"echo\",\"params\":[\"{}\"]}}", "p".repeat(l.saturating_sub(base.len())))
				}
			}
			None => payload,
		};
		let body = payload.into_bytes();
		let frames = split_body(&body);
		let with_len = rt::chance("with_len", 1, 2);
		let trailers = !over_stream && rt::chance("trailers", 1, 6);
		rt::event("request", format!("{method} ct={cts:?} with_len={with_len} trailers={trailers} frames={:?}", frames.iter().map(|f| (String::from_utf8_lossy(&f.0).to_string(), f.1)).collect::<Vec<_>>()));
		// WebSocket upgrade headers on a request that is not a GET: still an ordinary HTTP request (an upgrade is a GET)
		let upgrade_headers: u32 = if method != "GET" && rt::chance("upgrade_headers", 1, 8) { 1 + rt::draw("with_ws_key", 2) } else { 0 };
		if upgrade_headers > 0 {
			rt::probe("upgrade_headers_on_non_get");
		}
		let build = |frames: Vec<(Vec<u8>, u32)>, with_len: bool, trailers: bool| {
			let total: usize = frames.iter().map(|f| f.0.len()).sum();
			let mut b = http::Request::builder().method(method).uri("/").header("host", "sim.invalid");
			// (the reference request is built with `trailers == false` and one frame: it never carries these headers)
			if upgrade_headers > 0 && !(frames.len() == 1 && with_len && !trailers && frames[0].1 == 0 && REFERENCE.with(|r| r.get())) {
				b = b.header("connection", "upgrade").header("upgrade", "websocket");
				if upgrade_headers > 1 {
					b = b.header("sec-websocket-key", "dGhlIHNhbXBsZSBub25jZQ==").header("sec-websocket-version", "13");
				}
			}
			for ct in &cts {
				b = b.header("content-type", ct.as_str());
			}
			if with_len {
				b = b.header("content-length", total.to_string());
			}
			b.body(ScriptBody { frames: frames.into(), trailers, sleep: None, yielded: false, honest_len: if with_len { Some(total as u64) } else { None } }).unwrap()
		};
		let inv_before = world.log.lock().unwrap().invocations.len();
		// ---- send it chunked ----
		let mut body_lost = false;
		let got = match peer.as_mut() {
			Some(sender) => {
				if sender.ready().await.is_err() {
					break;
				}
				match sender.send_request(build(frames.clone(), with_len, false)).await {
					Ok(rp) => {
						use http_body_util::BodyExt;
						let status = rp.status().as_u16();
						match rp.into_body().collect().await {
							Ok(b) => world::HttpReply { status, body: b.to_bytes().to_vec() },
							Err(e) => {
								// the server answered before it had read the whole request and hyper tore the connection
								// down: the response body is lost on the way; only the status can be compared
								rt::event("http-body-lost", e.to_string());
								body_lost = true;
								world::HttpReply { status, body: vec![] }
							}
						}
					}
					Err(e) => {
						rt::event("http-error", e.to_string());
						break;
					}
				}
			}
			None => world::collect_response(world.tower_call(build(frames.clone(), with_len, trailers)).await).await,
		};
		let inv_after = world.log.lock().unwrap().invocations.len();
		rt::event("reply", format!("{} {}", got.status, String::from_utf8_lossy(&got.body)));
		// ---- the gate ----
		if method != "POST" {
			if got.status != 405 {
				rt::violate(P, "method-gate", method.to_string(), format!("{method} request was answered {} instead of 405", got.status));
			}
			if inv_after != inv_before {
				rt::violate(P, "handler-ran-behind-gate", method.to_string(), format!("a handler ran for a {method} request"));
			}
			continue;
		}
		match ct_expect {
			Some(false) => {
				if got.status != 415 {
					rt::violate(P, "content-type-gate", "rejected-spelling-accepted", format!("POST with content-type {cts:?} was answered {} instead of 415", got.status));
				}
				if inv_after != inv_before {
					rt::violate(P, "handler-ran-behind-gate", "content-type", format!("a handler ran for a POST with content-type {cts:?}"));
				}
				continue;
			}
			Some(true) => {
				if got.status == 415 || got.status == 405 {
					rt::violate(P, "content-type-gate", "accepted-spelling-rejected", format!("POST with content-type {cts:?} was answered {}", got.status));
					continue;
				}
			}
			None => {
				if got.status == 415 {
					if inv_after != inv_before {
						rt::violate(P, "handler-ran-behind-gate", "content-type", format!("a handler ran for a POST answered 415 (content-type {cts:?})"));
					}
					continue;
				}
			}
		}
		// ---- reference: the same bytes in one frame with Content-Length, directly at the tower service ----
		REFERENCE.with(|r| r.set(true));
		let reference_req = build(vec![(body.clone(), 0)], true, false);
		REFERENCE.with(|r| r.set(false));
		let reference = world::collect_response(world.tower_call(reference_req).await).await;
		let same_body = match (serde_json::from_slice::<Value>(&got.body), serde_json::from_slice::<Value>(&reference.body)) {
			(Ok(a), Ok(b)) => a == b,
			_ => got.body == reference.body,
		};
		if got.status != reference.status || (!same_body && !body_lost) {
			let first_ws_only = frames.first().is_some_and(|f| f.0.iter().all(|b| b.is_ascii_whitespace()));
			let not_json = !matches!(body.iter().find(|b| !b.is_ascii_whitespace()), Some(b'{' | b'['));
			let oversized = exact_limit.is_some_and(|l| body.len() > l);
			let sig = if not_json && oversized { "oversized-non-json-body" } else if upgrade_headers > 0 { "upgrade-headers-on-a-post" } else if first_ws_only { "first-chunk-empty-or-whitespace" } else if !with_len { "no-content-length" } else { "chunking" };
			rt::violate(
				P,
				"chunking-changes-answer",
				sig,
				format!("body {:?} sent as frames {:?} (content-length header: {with_len}) was answered {} {:?}, but {} {:?} when sent as one frame", String::from_utf8_lossy(&body), frames.iter().map(|f| String::from_utf8_lossy(&f.0).to_string()).collect::<Vec<_>>(), got.status, String::from_utf8_lossy(&got.body), reference.status, String::from_utf8_lossy(&reference.body)),
			);
		}
		if frames.len() >= 2 {
			nontrivial = true;
		}
	}
	if nontrivial {
		rt::probe("nontrivial");
	}
	drop(peer);
	// ---- a server with the library's own GET proxy in front: GET on a mapped path is turned into a call (a documented
	// feature); every other non-POST method must still be answered 405 and reach no handler, on mapped paths too
	if rt::chance("proxy_layer", 1, 5) {
		rt::probe("proxy_layer");
		let (stop, _handle) = jsonrpsee_server::stop_channel();
		let http_mw = tower::ServiceBuilder::new().layer(jsonrpsee_server::middleware::http::ProxyGetRequestLayer::new([("/health", "echo")]).expect("valid path"));
		let mut svc = jsonrpsee_server::Server::builder().set_http_middleware(http_mw).to_service_builder().build(world.methods.clone(), stop);
		for _ in 0..rt::draw_range("proxy_reqs", 1, 4) {
			let method = *rt::pick("proxy_method", &["GET", "HEAD", "OPTIONS", "TRACE", "PUT", "DELETE", "PATCH"]);
			let path = *rt::pick("proxy_path", &["/health", "/health", "/", "/other"]);
			let before = world.log.lock().unwrap().invocations.len();
			let req = http::Request::builder().method(method).uri(path).header("host", "sim.invalid").body(http_body_util::Full::new(Bytes::new())).unwrap();
			let resp = match tower::Service::call(&mut svc, req).await {
				Ok(r) => world::collect_response(r).await,
				Err(e) => {
					rt::event("proxy-service-error", format!("{e}"));
					continue;
				}
			};
			let ran = world.log.lock().unwrap().invocations.len() - before;
			rt::event("proxy-reply", format!("{method} {path} -> {} ({ran} handler runs)", resp.status));
			if method == "GET" && path == "/health" {
				if resp.status != 200 || ran != 1 {
					rt::violate(P, "proxy-get", "mapped-path", format!("GET {path} through the GET proxy was answered {} with {ran} handler runs (expected 200 and one run of the mapped method)", resp.status));
				}
			} else {
				if resp.status != 405 {
					rt::violate(P, "method-gate", format!("{method}:behind-get-proxy"), format!("{method} {path} was answered {} instead of 405 (GET proxy installed)", resp.status));
				}
				if ran != 0 {
					rt::violate(P, "handler-ran-behind-gate", format!("{method}:behind-get-proxy"), format!("a handler ran for {method} {path} (GET proxy installed)"));
				}
			}
		}
	}
	world.drop_stop_handle();
}

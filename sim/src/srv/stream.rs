//! SimStream — an in-memory, simulator-owned byte stream (both directions independent) with short reads and
//! writes, delivery latency on the virtual clock, reset, half-close, and observable drops.

use std::collections::VecDeque;
use std::io;
use std::pin::Pin;
use std::sync::{Arc, Mutex};
use std::task::{Context, Poll, Waker};
use std::time::Duration;

use tokio::io::{AsyncRead, AsyncWrite, ReadBuf};

use crate::rt;

#[derive(Clone, Copy, Debug, Default)]
pub struct Frag {
	/// draw short reads / short writes
	pub short: bool,
	/// max delivery latency in virtual ms (0 = immediate)
	pub latency_ms: u32,
	/// bytes a direction buffers before writes block (0 = unbounded): back-pressure from a slow reader
	pub cap: usize,
}

#[derive(Default)]
struct Dir {
	buf: VecDeque<u8>,
	/// writer side finished (shutdown or drop): reader sees EOF after the buffer is drained
	eof: bool,
	/// reader side is gone: writes fail
	reader_gone: bool,
	reset: bool,
	reader_waker: Option<Waker>,
	writer_waker: Option<Waker>,
	ready_at: Option<tokio::time::Instant>,
	total: u64,
}

#[derive(Default)]
pub struct Shared {
	/// index 0: A->B, 1: B->A
	dirs: [Dir; 2],
	pub dropped_stamp: [Option<u64>; 2],
	pub label: String,
}

pub struct End {
	shared: Arc<Mutex<Shared>>,
	/// 0 = A (peer / client side), 1 = B (server side)
	side: usize,
	frag: Frag,
	sleep: Option<Pin<Box<tokio::time::Sleep>>>,
}

/// Handle kept by the harness to observe and to inject faults.
#[derive(Clone)]
pub struct Ctl(Arc<Mutex<Shared>>);

pub fn pair(label: &str, frag: Frag) -> (End, End, Ctl) {
	let shared = Arc::new(Mutex::new(Shared { label: label.to_string(), ..Default::default() }));
	(
		End { shared: shared.clone(), side: 0, frag, sleep: None },
		End { shared: shared.clone(), side: 1, frag, sleep: None },
		Ctl(shared),
	)
}

impl Ctl {
	/// Connection reset: both directions fail from now on, buffered data is lost.
	pub fn reset(&self) {
		let mut s = self.0.lock().unwrap();
		rt::event("fault-reset", &s.label);
		rt::probe("fault.conn_reset");
		for d in s.dirs.iter_mut() {
			d.reset = true;
			d.buf.clear();
			if let Some(w) = d.reader_waker.take() {
				w.wake();
			}
			if let Some(w) = d.writer_waker.take() {
				w.wake();
			}
		}
	}

	/// Stamp at which the server side (B) of the stream was dropped.
	pub fn server_dropped(&self) -> Option<u64> {
		self.0.lock().unwrap().dropped_stamp[1]
	}

	pub fn peer_dropped(&self) -> Option<u64> {
		self.0.lock().unwrap().dropped_stamp[0]
	}

	/// Bytes written by the server side so far.
	pub fn server_bytes(&self) -> u64 {
		self.0.lock().unwrap().dirs[1].total
	}
}

impl AsyncRead for End {
	fn poll_read(mut self: Pin<&mut Self>, cx: &mut Context<'_>, out: &mut ReadBuf<'_>) -> Poll<io::Result<()>> {
		let this = &mut *self;
		let incoming = 1 - this.side;
		let mut s = this.shared.lock().unwrap();
		let d = &mut s.dirs[incoming];
		if d.reset {
			return Poll::Ready(Err(io::Error::new(io::ErrorKind::ConnectionReset, "simulated connection reset")));
		}
		if d.buf.is_empty() {
			if d.eof {
				return Poll::Ready(Ok(()));
			}
			d.reader_waker = Some(cx.waker().clone());
			return Poll::Pending;
		}
		if let Some(at) = d.ready_at {
			if tokio::time::Instant::now() < at {
				// not yet delivered: arm a timer
				let mut sl = Box::pin(tokio::time::sleep_until(at));
				let _ = sl.as_mut().poll(cx);
				drop(s);
				this.sleep = Some(sl);
				return Poll::Pending;
			}
			d.ready_at = None;
		}
		let avail = d.buf.len().min(out.remaining());
		if avail == 0 {
			return Poll::Ready(Ok(()));
		}
		let n = if this.frag.short && avail > 1 {
			// bias towards whole reads; 0 = everything
			match rt::draw("short-read", 4) {
				0 | 1 => avail,
				2 => 1 + rt::draw("short-read-n", avail as u32) as usize,
				_ => 1,
			}
			.min(avail)
		} else {
			avail
		};
		for _ in 0..n {
			let b = d.buf.pop_front().unwrap();
			out.put_slice(&[b]);
		}
		if let Some(w) = d.writer_waker.take() {
			w.wake();
		}
		Poll::Ready(Ok(()))
	}
}

use std::future::Future;

impl AsyncWrite for End {
	fn poll_write(self: Pin<&mut Self>, cx: &mut Context<'_>, data: &[u8]) -> Poll<io::Result<usize>> {
		let outgoing = self.side;
		let mut s = self.shared.lock().unwrap();
		let d = &mut s.dirs[outgoing];
		if d.reset {
			return Poll::Ready(Err(io::Error::new(io::ErrorKind::ConnectionReset, "simulated connection reset")));
		}
		if d.reader_gone || d.eof {
			return Poll::Ready(Err(io::Error::new(io::ErrorKind::BrokenPipe, "simulated broken pipe")));
		}
		if data.is_empty() {
			return Poll::Ready(Ok(0));
		}
		let room = if self.frag.cap == 0 { usize::MAX } else { self.frag.cap.saturating_sub(d.buf.len()) };
		if room == 0 {
			rt::probe("stream_backpressure");
			d.writer_waker = Some(cx.waker().clone());
			return Poll::Pending;
		}
		let data = &data[..data.len().min(room)];
		let n = if self.frag.short && data.len() > 1 {
			match rt::draw("short-write", 4) {
				0 | 1 => data.len(),
				2 => 1 + rt::draw("short-write-n", data.len() as u32) as usize,
				_ => 1,
			}
			.min(data.len())
		} else {
			data.len()
		};
		d.buf.extend(&data[..n]);
		d.total += n as u64;
		if self.frag.latency_ms > 0 && d.ready_at.is_none() {
			let ms = rt::draw("latency", self.frag.latency_ms + 1);
			if ms > 0 {
				d.ready_at = Some(tokio::time::Instant::now() + Duration::from_millis(ms as u64));
			}
		}
		if let Some(w) = d.reader_waker.take() {
			w.wake();
		}
		Poll::Ready(Ok(n))
	}

	fn poll_flush(self: Pin<&mut Self>, _cx: &mut Context<'_>) -> Poll<io::Result<()>> {
		Poll::Ready(Ok(()))
	}

	fn poll_shutdown(self: Pin<&mut Self>, _cx: &mut Context<'_>) -> Poll<io::Result<()>> {
		let outgoing = self.side;
		let mut s = self.shared.lock().unwrap();
		let d = &mut s.dirs[outgoing];
		d.eof = true;
		if let Some(w) = d.reader_waker.take() {
			w.wake();
		}
		Poll::Ready(Ok(()))
	}
}

impl Drop for End {
	fn drop(&mut self) {
		let mut s = self.shared.lock().unwrap();
		let label = s.label.clone();
		let st = rt::event(if self.side == 1 { "server-stream-dropped" } else { "peer-stream-dropped" }, label);
		s.dropped_stamp[self.side] = Some(st);
		let (out, inc) = (self.side, 1 - self.side);
		s.dirs[out].eof = true;
		if let Some(w) = s.dirs[out].reader_waker.take() {
			w.wake();
		}
		s.dirs[inc].reader_gone = true;
		if let Some(w) = s.dirs[inc].writer_waker.take() {
			w.wake();
		}
	}
}

//! Registry: which scenarios decide which property.

use crate::cli;
use crate::search::{Check, Scen};

const CLI_REAL: &str = "jsonrpsee-core async client (Client, send/read/shutdown tasks, RequestManager, RpcService, request timers), jsonrpsee-types, tokio sync primitives and timers (paused clock)";
const CLI_STUB: &str = "transport (in-memory SimTransport implementing TransportSenderT/TransportReceiverT), remote server (scripted peer), futures_timer (tokio-clock drop-in, hook H3), OS scheduling (task gate, hook H2)";

pub fn all() -> Vec<Check> {
	vec![Check {
		prop: "C03",
		level: "exploration",
		scens: vec![Scen { name: "cli_calls", f: || Box::pin(cli::calls::scenario()), weight: 1, sweep: None, max_steps: 50_000 }],
		quick_runs: 8_000,
		thorough_runs: 1_500_000,
		rule: "runs drawn from VERIF_SEED: 2-5 front-end tasks x 1-3 ops (call/batch/subscribe/notification), swarm over max_concurrent_requests, id kind, hostile peer; non-trivial = the peer's first answers were delivered in an order different from the order the requests reached the wire; distinct = schedule fingerprint",
		lib_panic_is_violation: false,
		stuck_is_violation: false,
		assumptions: vec!["a poll of a task is atomic (interleavings inside one poll are not explored)", "the scripted peer stands in for any server"],
		real: CLI_REAL,
		stub: CLI_STUB,
	}]
}

//! Registry: which scenarios decide which property.

use crate::cli;
use crate::srv;
use crate::search::{Check, Scen, Sweep};

const CLI_REAL: &str = "jsonrpsee-core async client (Client, send/read/shutdown tasks, RequestManager, RpcService, request timers), jsonrpsee-types, tokio sync primitives and timers (paused clock)";
const CLI_STUB: &str = "transport (in-memory SimTransport implementing TransportSenderT/TransportReceiverT), remote server (scripted peer), futures_timer (tokio-clock drop-in, hook H3), OS scheduling (task gate, hook H2)";

const SRV_REAL: &str = "jsonrpsee-server (TowerService / TowerServiceNoHttp, ws::background_task + send_task, http::call_with_service, low-level ws::connect, middleware::rpc::RpcService), jsonrpsee-core server (RpcModule, MethodResponse, BoundedWriter, BatchResponseBuilder, subscriptions, MethodSink), jsonrpsee-types, hyper 1.x HTTP/1 server, hyper-util auto builder, soketto (both ends), tokio sync primitives and timers (paused clock), tower";
const SRV_STUB: &str = "TCP (SimStream: in-memory byte stream with short reads/writes, latency, reset), the accept loop of Server::start (the harness builds one TowerService per simulated connection, as examples/jsonrpsee_as_service does), the blocking thread pool (inline gated task, hook H2), random subscription ids (scripted IdProvider), remote clients (raw soketto / hyper client peers), OS scheduling (task gate)";

pub fn all() -> Vec<Check> {
	vec![Check {
		prop: "C01",
		level: "exploration",
		scens: vec![Scen { name: "srv_single", f: || Box::pin(srv::single::scenario()), weight: 1, sweep: None, max_steps: 200_000 }],
		quick_runs: 3_000,
		thorough_runs: 400_000,
		rule: "1-2 WebSocket connections x 2-12 generated messages (valid calls over all id forms / method names / params shapes, notifications, ids outside the domain, invalid request objects, non-object JSON, non-JSON incl. truncations and invalid UTF-8, 0-127 bytes of leading whitespace) pipelined with drawn think times, each also sent as one HTTP POST (direct tower call or hyper over a simulated stream); handler kinds sync/async/blocking/blocking-that-panics; swarm over entry point, write-queue capacity, stream fragmentation; non-trivial = replies arrived in an order different from the order the messages were sent; distinct = schedule fingerprint",
		lib_panic_is_violation: false,
		stuck_is_violation: false,
		assumptions: vec!["a poll of a task is atomic", "message generation is seeded generation from a grammar, not enumeration", "duplicated `id` members, non-JSON whitespace (\\x0c) and more than 127 leading whitespace bytes are not generated"],
		real: SRV_REAL,
		stub: SRV_STUB,
	},
	Check {
		prop: "C02",
		level: "exploration",
		scens: vec![Scen { name: "srv_batch", f: || Box::pin(srv::batch::scenario()), weight: 1, sweep: None, max_steps: 200_000 }],
		quick_runs: 3_000,
		thorough_runs: 400_000,
		rule: "1-2 batches of 0-8 entries (C01 entry grammar + calls to subscribe/unsubscribe methods + duplicate ids, drawn order) under batch config Disabled/Limit(n)/Unlimited, sent over WebSocket between pipelined single calls and next to a live non-batch subscription, and over HTTP; every call entry is also sent alone; swarm over entry point, write-queue capacity, fragmentation; non-trivial = a batch with >= 2 reply-expecting entries was answered; distinct = schedule fingerprint",
		lib_panic_is_violation: false,
		stuck_is_violation: false,
		assumptions: vec!["a poll of a task is atomic", "entries are seeded generation from the C01 grammar", "response-size limit kept large (C08 covers it)"],
		real: SRV_REAL,
		stub: SRV_STUB,
	},
	Check {
		prop: "C03",
		level: "exploration",
		scens: vec![Scen { name: "cli_calls", f: || Box::pin(cli::calls::scenario()), weight: 1, sweep: None, max_steps: 50_000 }],
		quick_runs: 8_000,
		thorough_runs: 1_500_000,
		rule: "runs drawn from VERIF_SEED: 2-5 front-end tasks x 1-3 ops (call/batch/subscribe/notification), swarm over max_concurrent_requests, id kind, hostile peer; non-trivial = the peer's first answers were delivered in an order different from the order the requests reached the wire; distinct = schedule fingerprint",
		lib_panic_is_violation: false,
		stuck_is_violation: false,
		assumptions: vec!["a poll of a task is atomic (interleavings inside one poll are not explored)", "the scripted peer stands in for any server"],
		real: CLI_REAL,
		stub: CLI_STUB,
	},
	Check {
		prop: "C05",
		level: "exploration",
		scens: vec![Scen { name: "cli_subs", f: || Box::pin(cli::subs::scenario()), weight: 1, sweep: None, max_steps: 80_000 }],
		quick_runs: 6_000,
		thorough_runs: 1_000_000,
		rule: "1-4 subscriptions (+ optional method-notification handler), buffers 1/2/3/8, consumers eager/slow/stalled, explicit unsubscribe or drop at drawn points, 3-40 pushes (live/ended/unknown ids, close notifications, method notifications) delivered singly or grouped in arrays, before and after the subscribe responses; non-trivial = some stream yielded >= 2 items or was closed for lagging; distinct = schedule fingerprint",
		lib_panic_is_violation: false,
		stuck_is_violation: false,
		assumptions: vec!["a poll of a task is atomic (the buffer-occupancy model relies on it)", "the peer never reuses a subscription id"],
		real: CLI_REAL,
		stub: CLI_STUB,
	},
	Check {
		prop: "C18",
		level: "exploration",
		scens: vec![Scen { name: "cli_leak", f: || Box::pin(cli::leak::scenario()), weight: 1, sweep: None, max_steps: 400_000 }],
		quick_runs: 5_000,
		thorough_runs: 600_000,
		rule: "1-3 front-end tasks x 1-8 cycles from {call, failing call, batch, notification, subscribe ended by unsubscribe/drop/server close/lag, subscribe refused/malformed/duplicate id, notification handler drop/unsubscribe/lag/double registration}; acknowledgements in drawn order; non-trivial = the connection was still up at quiescence and the four table sizes were read; distinct = schedule fingerprint",
		lib_panic_is_violation: false,
		stuck_is_violation: false,
		assumptions: vec!["a poll of a task is atomic", "table sizes are read through hook H5 (a Weak handle, so the hook cannot keep state alive)"],
		real: CLI_REAL,
		stub: CLI_STUB,
	},
	Check {
		prop: "C09",
		level: "fault_enumeration",
		scens: vec![Scen {
			name: "cli_faults",
			f: || Box::pin(cli::faults::scenario()),
			weight: 1,
			sweep: Some(Sweep { param: "fault_at", count_probe: "seam_events", kinds: cli::faults::SWEEP_KINDS, quick_bases: 12, thorough_bases: 1500 }),
			max_steps: 50_000,
		}],
		quick_runs: 6_000,
		thorough_runs: 1_000_000,
		rule: "one planned fault per run: send error / receive error / peer close / one of 26 poison messages, fired at a drawn seam-event position (search) or at every seam-event position of a fault-free base run x 9 fault kinds (sweep); 1-4 front-end tasks x 1-2 ops + late ops + optional open subscription stream; non-trivial = the client noticed the fault while at least one operation was outstanding; distinct = schedule fingerprint + fault kind",
		lib_panic_is_violation: true,
		stuck_is_violation: true,
		assumptions: vec!["a poll of a task is atomic", "the build has overflow-checks on, as a user's debug build has", "one fault per run"],
		real: CLI_REAL,
		stub: CLI_STUB,
	},
	Check {
		prop: "C12",
		level: "exploration",
		scens: vec![
			Scen { name: "cli_batch_ws", f: || Box::pin(cli::batch::scenario_ws()), weight: 2, sweep: None, max_steps: 50_000 },
			Scen { name: "cli_batch_http", f: || Box::pin(cli::batch::scenario_http()), weight: 1, sweep: None, max_steps: 50_000 },
		],
		quick_runs: 9_000,
		thorough_runs: 1_500_000,
		rule: "1-3 concurrent batches of 1-6 entries (+0-2 single calls), both id kinds, both clients; each batch reply is a drawn permutation / subset / duplication / foreign id / mixture of two batches; non-trivial = a batch completed Ok with an entry at position > 0 filled from a reply element attributable to exactly that id; distinct = schedule fingerprint",
		lib_panic_is_violation: false,
		stuck_is_violation: false,
		assumptions: vec!["a poll of a task is atomic", "HTTP: the hyper connection pool is replaced by a tower layer that answers directly (HttpClientBuilder::set_http_middleware)"],
		real: "jsonrpsee-core async client; jsonrpsee-http-client (HttpClient, RpcService, HttpTransportClient above its tower backend); jsonrpsee-types",
		stub: CLI_STUB,
	}]
}

//! C05 — a client subscription stream yields exactly its own notifications, in order.
//!
//! Real client over the simulated transport. 1-4 subscriptions (+ optionally a method-notification handler),
//! per-subscription buffers of 1/2/3/8, consumer tasks that read eagerly / slowly / not at all, explicit
//! `unsubscribe()` or drop at drawn points. The scripted peer pushes notifications for live / ended / unknown
//! subscription ids, close notifications and method notifications, singly or grouped into arrays, before and
//! after the subscribe responses. The oracle is an exact routing + buffer-occupancy model driven by stamped
//! events ("push p was handed to the client", "consumer took an item").

use std::collections::BTreeMap;
use std::sync::atomic::{AtomicBool, Ordering};
use std::sync::{Arc, Mutex};
use std::time::Duration;

use jsonrpsee_core::client::{Client, Error, IdKind, Subscription, SubscriptionClientT, SubscriptionKind};
use jsonrpsee_core::rpc_params;
use serde_json::{Value, json};

use super::{Parsed, Wire, err_response, method_notif, ok_response, parse_out, sub_close, sub_notif};
use crate::rt;

const P: &str = "C05";

#[derive(Debug, Clone, Copy, PartialEq)]
enum Pace {
	Eager,
	Slow,
	Stalled,
}

#[derive(Debug, Clone, Copy, PartialEq)]
enum EndAct {
	ReadToEnd,
	UnsubscribeAfter(u32),
	DropAfter(u32),
}

#[derive(Debug, Clone)]
enum PushKind {
	Notif { sub: String, payload: u64 },
	Close { sub: String },
	Method { name: String, payload: u64 },
}

#[derive(Debug, Clone)]
struct PushRec {
	seq: u64,
	kind: PushKind,
	grouped: bool,
}

#[derive(Debug, Default, Clone)]
struct SubRec {
	nonce: u64,
	sub_id: Option<String>,
	refused: bool,
	/// wire push seq of the subscribe response
	accept_seq: Option<u64>,
	yields: Vec<(u64, u64)>,
	ended: Option<(u64, String)>,
	user_end: Option<(u64, &'static str)>,
	server_close_planned: bool,
}

pub async fn scenario() {
	let n_subs = rt::draw_range("n_subs", 1, 4);
	let buf = *rt::pick("buf", &[2usize, 1, 3, 8]);
	let id_str = rt::chance("id_kind", 1, 3);
	let max_conc = *rt::pick("max_conc", &[256usize, 256, 2]);
	let with_handler = rt::chance("handler", 1, 3);
	let n_push = rt::draw_range("n_push", 3, 40);
	// end the connection (receive error) right after the last push, while items may still be buffered
	let early_end = rt::chance("early_end", 1, 4);
	let mut paces = Vec::new();
	let mut ends = Vec::new();
	let mut server_close = Vec::new();
	for _ in 0..n_subs {
		paces.push(*rt::pick("pace", &[Pace::Eager, Pace::Slow, Pace::Stalled]));
		let sc = rt::chance("server_close", 1, 4);
		server_close.push(sc);
		ends.push(if sc {
			EndAct::ReadToEnd
		} else {
			match rt::draw("end", 4) {
				0 | 1 => EndAct::ReadToEnd,
				2 => EndAct::UnsubscribeAfter(rt::draw("after", 5)),
				_ => EndAct::DropAfter(rt::draw("after", 5)),
			}
		});
	}
	// successor mode: once the server has closed a subscription it hands the same id to a new one, and the application
	// drops its old, ended handle only then
	let pred: Option<usize> = if rt::chance("successor", 1, 4) { server_close.iter().position(|c| *c) } else { None };
	rt::event("plan", format!("successor_of={pred:?} subs={n_subs} buf={buf} id_str={id_str} max_conc={max_conc} handler={with_handler} pushes={n_push} paces={paces:?} ends={ends:?} server_close={server_close:?}"));

	let (wire, tx, rx) = Wire::new();
	let (ping, req_timeout) = super::draw_ping(10);
	let mut builder = Client::builder();
	if let Some(p) = ping {
		builder = builder.enable_ws_ping(p);
	}
	let client = Arc::new(
		builder
			.max_buffer_capacity_per_subscription(buf)
			.max_concurrent_requests(max_conc)
			.id_format(if id_str { IdKind::String } else { IdKind::Number })
			.request_timeout(req_timeout)
			.build_with_tokio(tx, rx),
	);
	let subs: Arc<Mutex<Vec<SubRec>>> = Arc::new(Mutex::new((0..n_subs).map(|i| SubRec { nonce: i as u64 + 1, server_close_planned: server_close[i as usize], ..Default::default() }).collect()));
	let succ_nonce = n_subs as u64 + 1;
	if pred.is_some() {
		subs.lock().unwrap().push(SubRec { nonce: succ_nonce, ..Default::default() });
	}
	let (stale_tx, stale_rx) = tokio::sync::oneshot::channel::<Subscription<Value>>();
	let mut stale_tx = Some(stale_tx);
	let pushes: Arc<Mutex<Vec<PushRec>>> = Arc::default();
	let peer_done = Arc::new(AtomicBool::new(false));
	let handler_rec: Arc<Mutex<(Vec<(u64, u64)>, Option<(u64, String)>)>> = Arc::default();

	// ---------------- method-notification handler ----------------
	let mut handler_task = None;
	if with_handler {
		let r: Result<Subscription<Value>, Error> = client.subscribe_to_method("mn").await;
		if let Ok(mut h) = r {
			let st = rt::event("handler-registered", "mn");
			let rec = handler_rec.clone();
			let pace = *rt::pick("hpace", &[Pace::Eager, Pace::Slow]);
			handler_task = Some(rt::spawn("hconsumer", async move {
				let _ = st;
				loop {
					if pace == Pace::Slow {
						tokio::time::sleep(Duration::from_millis(7)).await;
					}
					match h.next().await {
						Some(Ok(v)) => {
							let s = rt::event("h-item", v.to_string());
							rec.lock().unwrap().0.push((s, v.as_u64().unwrap_or(0)));
						}
						Some(Err(_)) => {}
						None => {
							let s = rt::event("h-ended", format!("{:?}", h.close_reason()));
							rec.lock().unwrap().1 = Some((s, format!("{:?}", h.close_reason())));
							break;
						}
					}
				}
				h
			}));
		}
	}

	// ---------------- peer ----------------
	let peer = {
		let (wire, subs, pushes, peer_done) = (wire.clone(), subs.clone(), pushes.clone(), peer_done.clone());
		rt::spawn("peer", async move {
			// pre-assigned subscription ids per nonce
			let sid_of = |nonce: u64| -> Value {
				// the successor is dealt the id of the subscription it follows
				let nonce = match pred {
					Some(p) if nonce == succ_nonce => p as u64 + 1,
					_ => nonce,
				};
				if nonce % 2 == 0 { json!(700 + nonce) } else { json!(format!("s{}", 700 + nonce)) }
			};
			let mut pending: Vec<(Value, String, Value)> = Vec::new(); // (id, method, params)
			let mut budget = n_push;
			let mut payload = 10_000u64;
			let mut closed_by_server: Vec<String> = Vec::new();
			let mut tx_gone = false;
			loop {
				while let Some(m) = wire.try_next_out() {
					if let Parsed::Call { id, method, params } = parse_out(&m.text) {
						pending.push((id, method, params));
					}
				}
				if budget == 0 && pending.is_empty() {
					peer_done.store(true, Ordering::Relaxed);
					if tx_gone {
						break;
					}
					match wire.next_out().await {
						Some(m) => {
							if let Parsed::Call { id, method, params } = parse_out(&m.text) {
								pending.push((id, method, params));
							}
						}
						None => tx_gone = true,
					}
					continue;
				}
				let act = rt::draw("peer-act", 10);
				if (act < 3 || budget == 0) && !pending.is_empty() {
					let k = rt::draw("which", pending.len() as u32) as usize;
					let (id, method, params) = pending.remove(k);
					match method.as_str() {
						"sub" => {
							let nonce = super::nonce_of(&params).unwrap_or(0);
							if rt::chance("refuse", 1, 8) {
								wire.push_text(err_response(&id, -32000, "refused", None));
								if let Some(s) = subs.lock().unwrap().iter_mut().find(|s| s.nonce == nonce) {
									s.refused = true;
								}
							} else {
								let sid = sid_of(nonce);
								let seq = wire.push_text(ok_response(&id, &sid));
								if let Some(s) = subs.lock().unwrap().iter_mut().find(|s| s.nonce == nonce) {
									s.sub_id = Some(sid.to_string());
									s.accept_seq = Some(seq);
								}
							}
						}
						"unsub" => {
							wire.push_text(ok_response(&id, &json!(true)));
						}
						_ => {
							wire.push_text(ok_response(&id, &json!(1)));
						}
					}
					continue;
				}
				match act {
					3 => tokio::time::sleep(Duration::from_millis(rt::draw_range("lat", 1, 20) as u64)).await,
					4 => rt::yield_n(1).await,
					_ if budget > 0 => {
						// a group of 1..4 pushes, delivered singly or as one array
						let g = rt::draw_range("group_n", 1, 4).min(budget);
						let grouped = g > 1 && rt::chance("grouped", 1, 2);
						let mut items: Vec<(String, PushKind)> = Vec::new();
						for _ in 0..g {
							budget -= 1;
							payload += 1;
							let all: Vec<(u64, bool)> = subs.lock().unwrap().iter().map(|s| (s.nonce, s.server_close_planned)).collect();
							let k = rt::draw("push_kind", 20);
							let (n, sc) = all[rt::draw("push_sub", all.len() as u32) as usize];
							let sid = sid_of(n);
							let item = match k {
								0..=12 => (sub_notif("n", &sid, &json!(payload)), PushKind::Notif { sub: sid.to_string(), payload }),
								13 => (sub_notif("n", &json!(999_999), &json!(payload)), PushKind::Notif { sub: "999999".into(), payload }),
								14 => (sub_notif("n", &json!("nope"), &json!(payload)), PushKind::Notif { sub: "\"nope\"".into(), payload }),
								15 | 16 => (method_notif("mn", Some(&json!(payload))), PushKind::Method { name: "mn".into(), payload }),
								17 => (method_notif("other", Some(&json!([payload]))), PushKind::Method { name: "other".into(), payload }),
								_ if sc && !closed_by_server.contains(&sid.to_string()) => {
									closed_by_server.push(sid.to_string());
									(sub_close("n", &sid, rt::pick("close_reason", &[json!("bye"), json!("say \"bye\" \\ and\nleave"), json!({"code": 1, "why": ["x"]}), json!(42), Value::Null])), PushKind::Close { sub: sid.to_string() })
								}
								_ => (sub_notif("n", &sid, &json!(payload)), PushKind::Notif { sub: sid.to_string(), payload }),
							};
							items.push(item);
						}
						if grouped {
							rt::probe("grouped_array");
							let text = format!("[{}]", items.iter().map(|i| i.0.as_str()).collect::<Vec<_>>().join(","));
							let seq = wire.push_text(text);
							for (_, k) in items {
								pushes.lock().unwrap().push(PushRec { seq, kind: k, grouped: true });
							}
						} else {
							for (t, k) in items {
								let seq = wire.push_text(t);
								pushes.lock().unwrap().push(PushRec { seq, kind: k, grouped: false });
							}
						}
					}
					_ => rt::yield_n(1).await,
				}
			}
		})
	};

	// ---------------- subscribers / consumers ----------------
	let mut hs = Vec::new();
	for i in 0..n_subs as usize {
		let (client, subs) = (client.clone(), subs.clone());
		let (pace, end) = (paces[i], ends[i]);
		let nonce = i as u64 + 1;
		let peer_done = peer_done.clone();
		let mut hand_over = if pred == Some(i) { stale_tx.take() } else { None };
		// in half of the successor runs the old handle is given up as soon as the server's close notification has
		// reached the client, with whatever is still unread in its buffer
		let undrained = hand_over.is_some() && rt::chance("stale_handle_undrained", 1, 2);
		let (wire_c, pushes_c) = (wire.clone(), pushes.clone());
		hs.push(rt::spawn("consumer", async move {
			let r: Result<Subscription<Value>, Error> = client.subscribe("sub", rpc_params![nonce], "unsub").await;
			let mut sub = match r {
				Ok(s) => s,
				Err(e) => {
					rt::event("subscribe-failed", format!("nonce={nonce} {e:?}"));
					return None;
				}
			};
			drop(client);
			let sid = match sub.kind() {
				SubscriptionKind::Subscription(id) => serde_json::to_value(id).unwrap().to_string(),
				_ => String::new(),
			};
			rt::event("subscribed", format!("nonce={nonce} sid={sid}"));
			let mut taken = 0u32;
			loop {
				if undrained {
					// (a close notification that reached the client before the subscription was accepted closed nothing)
					let accepted_at = subs.lock().unwrap()[i].accept_seq.and_then(|q| wire_c.delivered_stamp(q));
					let close_delivered = pushes_c.lock().unwrap().iter().any(|p| matches!(&p.kind, PushKind::Close { sub } if *sub == sid) && wire_c.delivered_stamp(p.seq).is_some_and(|d| accepted_at.is_some_and(|a| d > a)));
					if close_delivered {
						if let Some(tx) = hand_over.take() {
							let st = rt::event("user-gives-up-undrained", format!("nonce={nonce}"));
							rt::probe("stale_handle_with_unread_items");
							subs.lock().unwrap()[i].user_end = Some((st, "drop"));
							return tx.send(sub).err();
						}
					}
				}
				match end {
					EndAct::UnsubscribeAfter(k) if taken >= k => {
						let st = rt::event("user-unsubscribe", format!("nonce={nonce}"));
						subs.lock().unwrap()[i].user_end = Some((st, "unsubscribe"));
						let _ = sub.unsubscribe().await;
						rt::event("user-unsubscribe-returned", format!("nonce={nonce}"));
						return None;
					}
					EndAct::DropAfter(k) if taken >= k => {
						let st = rt::event("user-drop", format!("nonce={nonce}"));
						subs.lock().unwrap()[i].user_end = Some((st, "drop"));
						drop(sub);
						return None;
					}
					_ => {}
				}
				match pace {
					Pace::Eager => {}
					Pace::Slow => tokio::time::sleep(Duration::from_millis(rt::draw_range("slow", 1, 15) as u64)).await,
					Pace::Stalled => {
						// do not read until the peer has finished pushing
						while !peer_done.load(Ordering::Relaxed) {
							tokio::time::sleep(Duration::from_millis(25)).await;
						}
					}
				}
				match sub.next().await {
					Some(Ok(v)) => {
						taken += 1;
						let st = rt::event("item", format!("nonce={nonce} {v}"));
						subs.lock().unwrap()[i].yields.push((st, v.as_u64().unwrap_or(0)));
					}
					Some(Err(e)) => {
						rt::event("item-err", format!("{e}"));
					}
					None => {
						let st = rt::event("stream-ended", format!("nonce={nonce} {:?}", sub.close_reason()));
						subs.lock().unwrap()[i].ended = Some((st, format!("{:?}", sub.close_reason())));
						if let Some(tx) = hand_over.take() {
							// the ended handle stays alive a little longer, in somebody else's hands
							return tx.send(sub).err();
						}
						return Some(sub);
					}
				}
			}
		}));
	}

	if pred.is_some() {
		// (a weak handle: waiting for the hand-over must not keep the client alive)
		let (client, subs) = (Arc::downgrade(&client), subs.clone());
		let si = n_subs as usize;
		hs.push(rt::spawn("successor", async move {
			let Ok(stale) = stale_rx.await else { return None };
			let Some(client) = client.upgrade() else { return Some(stale) };
			// (lagged instead of closed by the server is not the case this mode is after; a handle that was not read to
			// its end does not know yet why it ended)
			if matches!(stale.close_reason(), Some(jsonrpsee_core::client::SubscriptionCloseReason::Lagged)) {
				return Some(stale);
			}
			let r: Result<Subscription<Value>, Error> = client.subscribe("sub", rpc_params![succ_nonce], "unsub").await;
			drop(client);
			let mut sub = match r {
				Ok(s) => s,
				Err(e) => {
					rt::event("subscribe-failed", format!("nonce={succ_nonce} {e:?}"));
					return Some(stale);
				}
			};
			rt::event("subscribed", format!("nonce={succ_nonce} (successor, same id as the ended subscription)"));
			rt::yield_n(rt::draw("stale_drop_after", 4)).await;
			rt::event("stale-handle-dropped", "");
			rt::probe("stale_handle_dropped_after_id_reuse");
			drop(stale);
			loop {
				match sub.next().await {
					Some(Ok(v)) => {
						let st = rt::event("item", format!("nonce={succ_nonce} {v}"));
						subs.lock().unwrap()[si].yields.push((st, v.as_u64().unwrap_or(0)));
					}
					Some(Err(e)) => {
						rt::event("item-err", format!("{e}"));
					}
					None => {
						let st = rt::event("stream-ended", format!("nonce={succ_nonce} {:?}", sub.close_reason()));
						subs.lock().unwrap()[si].ended = Some((st, format!("{:?}", sub.close_reason())));
						return Some(sub);
					}
				}
			}
		}));
	}
	// wait until the peer has pushed everything and everything is delivered and consumed
	while !peer_done.load(Ordering::Relaxed) {
		tokio::time::sleep(Duration::from_millis(50)).await;
	}
	let (still_connected, conn_end_stamp, model);
	if early_end {
		rt::probe("early_connection_end");
		conn_end_stamp = rt::event("connection-reset-by-peer", "");
		wire.push(super::InItem::Err("injected: connection reset".into()));
		still_connected = false;
		model = ();
	} else {
		tokio::time::sleep(Duration::from_secs(2)).await;
		still_connected = client.is_connected();
		conn_end_stamp = rt::event("dropping-client", format!("connected={still_connected}"));
		// wire-level part of the oracle while the connection is still up
		model = check_streams_and_wire(&wire, &subs.lock().unwrap(), &pushes.lock().unwrap(), buf, max_conc, still_connected, false, conn_end_stamp);
	}
	// a notification handler that was removed for lagging and whose method is registered again: the old, ended handle
	// is dropped only afterwards and must not take the new handler with it
	if with_handler && still_connected && handler_rec.lock().unwrap().1.is_some() {
		let r: Result<Subscription<Value>, Error> = client.subscribe_to_method("mn").await;
		if let Ok(mut h2) = r {
			rt::probe("handler_successor");
			if let Some(ht) = handler_task.take() {
				if let Ok(Ok(old)) = tokio::time::timeout(Duration::from_secs(5), ht).await {
					rt::event("stale-handler-handle-dropped", "");
					drop(old);
				}
			}
			rt::yield_n(rt::draw("after_stale_handler_drop", 4)).await;
			tokio::time::sleep(Duration::from_millis(20)).await;
			wire.push_text(method_notif("mn", Some(&json!(424_242))));
			match tokio::time::timeout(Duration::from_secs(1), h2.next()).await {
				Ok(Some(Ok(v))) if v == json!(424_242) => {}
				other => rt::violate(P, "handler-contents", "successor-of-a-lagged-handler", format!("a handler registered for `mn` after the previous one had been removed for lagging did not receive the next `mn` notification (got {other:?}) once the old handle had been dropped")),
			}
			drop(h2);
		}
	}
	drop(client);
	let mut keep = Vec::new();
	for h in hs {
		if let Ok(Ok(s)) = tokio::time::timeout(Duration::from_secs(5), h).await {
			keep.push(s);
		}
	}
	if let Some(h) = handler_task {
		let _ = tokio::time::timeout(Duration::from_secs(5), h).await;
	}
	let _ = model;
	// final part: every stream that reads to the end has ended by now with the right contents
	check_streams_and_wire(&wire, &subs.lock().unwrap(), &pushes.lock().unwrap(), buf, max_conc, still_connected, true, conn_end_stamp);
	check_handler(&wire, &pushes.lock().unwrap(), &handler_rec.lock().unwrap(), buf, with_handler);
	let _ = tokio::time::timeout(Duration::from_secs(5), peer).await;
}

/// Exact model of one stream: returns (expected enqueued payloads, lagged, closed_by(stamp, why)).
fn model_stream(wire: &Wire, s: &SubRec, pushes: &[PushRec], buf: usize) -> (Vec<u64>, bool, Option<(u64, &'static str)>) {
	let Some(sid) = &s.sub_id else { return (vec![], false, None) };
	let Some(acc) = s.accept_seq.and_then(|q| wire.delivered_stamp(q)) else { return (vec![], false, None) };
	// events: (stamp, order, kind)
	#[derive(Debug)]
	enum Ev {
		Deliver(u64),
		Close,
		Take,
		UserEnd,
	}
	let mut evs: Vec<(u64, u64, Ev)> = Vec::new();
	for (i, p) in pushes.iter().enumerate() {
		let Some(d) = wire.delivered_stamp(p.seq) else { continue };
		if d <= acc {
			continue;
		}
		match &p.kind {
			PushKind::Notif { sub, payload } if sub == sid => evs.push((d, i as u64, Ev::Deliver(*payload))),
			PushKind::Close { sub } if sub == sid => evs.push((d, i as u64, Ev::Close)),
			_ => {}
		}
	}
	for (st, _) in &s.yields {
		evs.push((*st, 0, Ev::Take));
	}
	if let Some((st, _)) = s.user_end {
		evs.push((st, 0, Ev::UserEnd));
	}
	evs.sort_by_key(|e| (e.0, e.1));
	let mut enq: Vec<u64> = Vec::new();
	let mut occupancy = 0usize;
	let mut closed: Option<(u64, &'static str)> = None;
	let mut lagged = false;
	for (st, _, ev) in evs {
		match ev {
			Ev::Deliver(p) => {
				if closed.is_some() {
					continue;
				}
				if occupancy == buf {
					lagged = true;
					closed = Some((st, "lagged"));
				} else {
					occupancy += 1;
					enq.push(p);
				}
			}
			Ev::Close => {
				if closed.is_none() {
					closed = Some((st, "server-close"));
				}
			}
			Ev::Take => occupancy = occupancy.saturating_sub(1),
			Ev::UserEnd => {
				if closed.is_none() {
					closed = Some((st, "user"));
				}
			}
		}
	}
	(enq, lagged, closed)
}

#[allow(clippy::too_many_arguments)]
fn check_streams_and_wire(wire: &Wire, subs: &[SubRec], pushes: &[PushRec], buf: usize, max_conc: usize, still_connected: bool, fin: bool, conn_end_stamp: u64) {
	// unsubscribe requests on the wire, per subscription id
	let mut unsubs: BTreeMap<String, u32> = BTreeMap::new();
	{
		let w = wire.lock();
		for m in &w.out_log {
			if let Parsed::Call { method, params, .. } = parse_out(&m.text) {
				if method == "unsub" {
					let sid = params.as_array().and_then(|a| a.first()).map(|v| v.to_string()).unwrap_or_default();
					*unsubs.entry(sid).or_insert(0) += 1;
				}
			}
		}
	}
	let mut nontrivial = false;
	for s in subs {
		let Some(sid) = &s.sub_id else { continue };
		if s.accept_seq.and_then(|q| wire.delivered_stamp(q)).is_none() {
			continue;
		}
		let (enq, lagged, closed) = model_stream(wire, s, pushes, buf);
		let got: Vec<u64> = s.yields.iter().map(|y| y.1).collect();
		let grouped_involved = pushes.iter().any(|p| p.grouped && matches!(&p.kind, PushKind::Notif{sub,..} | PushKind::Close{sub} if sub == sid));
		let g = if grouped_involved { "grouped" } else { "single" };
		// 1. contents: what was yielded is a prefix of what the model enqueued (all of it when the stream ended)
		if got.len() > enq.len() || got[..] != enq[..got.len()] {
			// classify
			let foreign = got.iter().find(|p| !enq.contains(p));
			let sig = match foreign {
				Some(p) => {
					let owner = pushes.iter().find_map(|q| match &q.kind {
						PushKind::Notif { sub, payload } if payload == p => Some(if sub == sid { "own-but-unexpected" } else { "foreign-subscription" }),
						PushKind::Method { payload, .. } if payload == p => Some("method-notification"),
						_ => None,
					});
					owner.unwrap_or("unknown-payload").to_string()
				}
				None => "order-or-duplicate".to_string(),
			};
			rt::violate(P, "stream-contents", format!("{sig}:{g}"), format!("subscription {sid} (buffer {buf}) yielded {got:?}, the model expects a prefix of {enq:?}"));
		}
		if !fin {
			// 2. unsubscribe requests, checked while the connection is still alive
			let n = unsubs.get(sid).copied().unwrap_or(0);
			let why = closed.map(|c| c.1);
			if still_connected {
				match (why, s.user_end.map(|u| u.1)) {
					(Some("lagged"), _) => {
						rt::probe("lagged");
						// if the server itself closed the subscription as well, the unsubscribe request is moot: 0 or 1
						let server_closed_too = pushes.iter().any(|p| matches!(&p.kind, PushKind::Close{sub} if sub == sid) && wire.delivered_stamp(p.seq).is_some());
						if n > 1 || (n != 1 && !server_closed_too) {
							rt::violate(P, "unsubscribe-count", format!("lagged:{n}"), format!("subscription {sid} was closed for lagging; {n} unsubscribe requests were sent for it (expected exactly 1)"));
						}
					}
					(Some("server-close"), _) => {
						if n > 1 {
							rt::violate(P, "unsubscribe-count", format!("server-close:{n}"), format!("subscription {sid}: {n} unsubscribe requests"));
						}
					}
					(_, Some("unsubscribe")) => {
						if n != 1 {
							rt::violate(P, "unsubscribe-count", format!("explicit:{n}"), format!("explicit unsubscribe of {sid}: {n} unsubscribe requests were sent (expected exactly 1)"));
						}
					}
					(_, Some("drop")) => {
						// a later push for it that was processed forces exactly one; otherwise at most one, exactly one if the request queue had room
						let dropped_at = s.user_end.unwrap().0;
						let later_push = pushes.iter().any(|p| matches!(&p.kind, PushKind::Notif{sub,..} if sub == sid) && wire.delivered_stamp(p.seq).is_some_and(|d| d > dropped_at));
						if n > 1 || ((later_push || max_conc >= 256) && n != 1) {
							rt::violate(P, "unsubscribe-count", format!("drop:{n}"), format!("dropped subscription {sid}: {n} unsubscribe requests (later push processed: {later_push}, request queue capacity {max_conc})"));
						}
					}
					(None, None) => {
						if n != 0 {
							rt::violate(P, "unsubscribe-count", format!("live:{n}"), format!("subscription {sid} is live by the model but {n} unsubscribe requests were sent"));
						}
					}
					_ => {}
				}
			}
			if lagged || s.yields.len() >= 2 {
				nontrivial = true;
			}
			continue;
		}
		// 3. final: termination
		if s.user_end.is_none() {
			match (&s.ended, closed) {
				(Some((st, reason)), c) => {
					if got != enq {
						rt::violate(P, "stream-contents", format!("ended-early:{g}"), format!("subscription {sid} ended after yielding {got:?}; the model enqueued {enq:?}"));
					}
					let want = if lagged { "Some(Lagged)" } else { "Some(ConnectionClosed)" };
					if reason != want {
						rt::violate(P, "close-reason", format!("{reason}-vs-{want}"), format!("subscription {sid} ended with close_reason {reason}, expected {want}"));
					}
					// ended before the model allows?
					if c.is_none() && *st < conn_end_stamp {
						rt::violate(P, "stream-ended-without-cause", g.to_string(), format!("subscription {sid} ended at #{st} although it was not closed by the server, did not lag and the connection was up"));
					}
				}
				(None, Some((st, why))) => {
					rt::violate(P, "stream-not-ended", format!("{why}:{g}"), format!("subscription {sid} was closed ({why}) at #{st} but its stream never ended"));
				}
				(None, None) => {
					rt::violate(P, "stream-not-ended", format!("connection-end:{g}"), format!("subscription {sid}: the client was dropped but the stream never ended"));
				}
			}
		}
	}
	if nontrivial {
		rt::probe("nontrivial");
	}
}

fn check_handler(wire: &Wire, pushes: &[PushRec], rec: &(Vec<(u64, u64)>, Option<(u64, String)>), buf: usize, with_handler: bool) {
	if !with_handler {
		return;
	}
	// the handler is registered before any push can be delivered (registration is awaited before the
	// subscribers start) - all "mn" notifications are expected until overflow
	let mut evs: Vec<(u64, u64, Option<u64>)> = Vec::new();
	for (i, p) in pushes.iter().enumerate() {
		if let PushKind::Method { name, payload } = &p.kind {
			if name == "mn" {
				if let Some(d) = wire.delivered_stamp(p.seq) {
					evs.push((d, i as u64, Some(*payload)));
				}
			}
		}
	}
	for (st, _) in &rec.0 {
		evs.push((*st, 0, None));
	}
	evs.sort_by_key(|e| (e.0, e.1));
	let mut occ = 0usize;
	let mut enq = Vec::new();
	let mut closed = false;
	for (_, _, e) in evs {
		match e {
			Some(p) if !closed => {
				if occ == buf {
					closed = true;
				} else {
					occ += 1;
					enq.push(p);
				}
			}
			Some(_) => {}
			None => occ = occ.saturating_sub(1),
		}
	}
	let got: Vec<u64> = rec.0.iter().map(|x| x.1).collect();
	if got != enq {
		rt::violate(P, "handler-contents", if closed { "lagged" } else { "plain" }, format!("method-notification handler yielded {got:?}, the model expects {enq:?}"));
	}
}

//! C03 — each client call completes with exactly the response bearing its own id.
//!
//! Real `Client` over the simulated transport; 2..5 front-end tasks issue calls, batches, subscribes and
//! notifications concurrently; the scripted peer answers outstanding ids in drawn order with unique nonces and
//! interleaves subscription / method notifications (singly or grouped in arrays). In "hostile" runs it also
//! duplicates answers and invents ids.

use std::collections::BTreeMap;
use std::sync::{Arc, Mutex};
use std::time::Duration;

use jsonrpsee_core::client::{BatchResponse, Client, ClientT, Error, IdKind, Subscription, SubscriptionClientT, SubscriptionKind};
use jsonrpsee_core::params::BatchRequestBuilder;
use jsonrpsee_core::rpc_params;
use serde_json::{Value, json};

use super::{Parsed, Wire, err_response, method_notif, nonce_of, ok_response, parse_out, sub_notif};
use crate::rt;

const P: &str = "C03";

#[derive(Debug, Clone)]
pub enum PlanOp {
	Call,
	Batch(u32),
	Subscribe,
	Notif,
	/// `subscribe_to_method` (no wire traffic; answered by the background task)
	Handler,
	/// a call whose future is dropped by the caller after this many polls
	CallCancelled(u32),
}

#[derive(Debug, Clone, PartialEq)]
pub enum Ans {
	Ok(Value),
	Err(i64, String, Option<Value>),
}

#[derive(Debug, Clone)]
pub enum Outcome {
	Call(Result<Value, String>, Option<Ans>),
	Batch(Result<Vec<Ans>, String>),
	Sub(Result<Value, String>, Option<Ans>),
	Notif(Result<(), String>),
	Handler(Result<(), String>),
	Cancelled,
}

#[derive(Debug, Clone)]
pub struct OpRec {
	pub nonces: Vec<u64>,
	pub done_stamp: u64,
	pub outcome: Outcome,
}

#[derive(Debug, Clone)]
pub struct Answer {
	/// Nonce of the request entry this answers (None for invented ids).
	pub nonce: Option<u64>,
	pub id: String,
	pub ans: Ans,
	pub push_seq: u64,
	pub kind: &'static str,
}

#[derive(Default)]
pub struct PeerLog {
	pub answers: Vec<Answer>,
	pub hostile_actions: u32,
}

pub fn client_err_to_ans(e: &Error) -> Result<Ans, String> {
	match e {
		Error::Call(o) => Ok(Ans::Err(
			o.code() as i64,
			o.message().to_string(),
			o.data().map(|d| serde_json::from_str(d.get()).unwrap()),
		)),
		other => Err(format!("{other:?}")),
	}
}

pub fn ans_to_text(id: &Value, a: &Ans) -> String {
	match a {
		Ans::Ok(v) => ok_response(id, v),
		Ans::Err(c, m, d) => err_response(id, *c, m, d.as_ref()),
	}
}

#[derive(Clone, Copy, Debug)]
pub struct PeerCfg {
	pub hostile: bool,
	pub id_kind_str: bool,
}

/// The scripted peer: answers every outstanding request exactly once, in drawn order, with unique payloads;
/// interleaves notifications; in hostile mode also duplicates answers and invents ids.
pub fn spawn_peer(wire: Wire, peer_log: Arc<Mutex<PeerLog>>, cfg: PeerCfg) -> tokio::task::JoinHandle<()> {
	let PeerCfg { hostile, id_kind_str } = cfg;
	rt::spawn("peer", async move {
		// (entries (nonce, id), is_sub, is_batch)
		let mut outstanding: Vec<(Vec<(Option<u64>, Value)>, bool, bool)> = Vec::new();
		// single calls already answered: (nonce, id)
		let mut answered: Vec<(Option<u64>, Value)> = Vec::new();
		let mut live_subs: Vec<Value> = Vec::new();
		let mut next_val = 1_000_000u64;
		let mut next_sub = 500u64;
		// subscription ids whose unsubscribe call has been seen: the server may hand them out again at once
		let free_ids: Mutex<Vec<Value>> = Mutex::new(Vec::new());
		let unsub_seen: Mutex<Vec<Value>> = Mutex::new(Vec::new());
		let register = |m: super::OutMsg, outstanding: &mut Vec<(Vec<(Option<u64>, Value)>, bool, bool)>| match parse_out(&m.text) {
			Parsed::Call { id, method, params } => {
				if method == "unsub" {
					if let Some(sid) = params.as_array().and_then(|a| a.first()) {
						unsub_seen.lock().unwrap().push(sid.clone());
					}
				}
				outstanding.push((vec![(nonce_of(&params), id)], method == "sub", false))
			}
			Parsed::Batch(es) => {
				let ids: Vec<(Option<u64>, Value)> = es
					.iter()
					.filter_map(|e| if let Parsed::Call { id, params, .. } = e { Some((nonce_of(params), id.clone())) } else { None })
					.collect();
				if !ids.is_empty() {
					outstanding.push((ids, false, true));
				}
			}
			_ => {}
		};
		loop {
			while let Some(m) = wire.try_next_out() {
				register(m, &mut outstanding);
			}
			if outstanding.is_empty() {
				match wire.next_out().await {
					Some(m) => register(m, &mut outstanding),
					None => break,
				}
				continue;
			}
			// unsubscribe calls seen since the last turn: the subscription is gone on the server from here on; it may
			// tell the client so (crossing the unsubscribe on the wire) and may hand the id out again at once
			let seen: Vec<Value> = unsub_seen.lock().unwrap().drain(..).collect();
			for sid in seen {
				live_subs.retain(|s| s != &sid);
				if rt::chance("crossing_close", 1, 3) {
					rt::probe("close_crossing_unsubscribe");
					wire.push_text(super::sub_close("n", &sid, &json!("bye")));
				}
				free_ids.lock().unwrap().push(sid);
			}
			let act = rt::draw("peer-act", 10);
			match act {
				0..=4 | 8 | 9 => {
					if (act == 8 || act == 9) && hostile {
						// hostile: duplicate an earlier answer (new nonce) or invent an id
						peer_log.lock().unwrap().hostile_actions += 1;
						rt::probe("hostile_action");
						if act == 8 && !answered.is_empty() {
							let (nonce, id) = rt::pick("dup-id", &answered).clone();
							next_val += 1;
							let a = Ans::Ok(json!(next_val));
							let seq = wire.push_text(ans_to_text(&id, &a));
							peer_log.lock().unwrap().answers.push(Answer { nonce, id: id.to_string(), ans: a, push_seq: seq, kind: "dup" });
						} else {
							let id = if id_kind_str { json!("77777") } else { json!(77777) };
							next_val += 1;
							let a = Ans::Ok(json!(next_val));
							let seq = wire.push_text(ans_to_text(&id, &a));
							peer_log.lock().unwrap().answers.push(Answer { nonce: None, id: id.to_string(), ans: a, push_seq: seq, kind: "unknown" });
						}
						continue;
					}
					let k = rt::draw("which", outstanding.len() as u32) as usize;
					let (ids, is_sub, is_batch) = outstanding.remove(k);
					let mut mk = |nonce: Option<u64>, id: &Value, is_sub: bool| -> (String, Answer) {
						let a = if rt::chance("err", 1, 4) {
							next_val += 1;
							Ans::Err(-32000 - (next_val % 90) as i64, format!("e{next_val}"), if next_val % 2 == 0 { Some(json!({"n": next_val})) } else { None })
						} else if is_sub {
							next_sub += 1;
							let reuse = !free_ids.lock().unwrap().is_empty() && rt::chance("reuse_sub_id", 1, 2);
							let sid = if reuse {
								rt::probe("sub_id_reused");
								free_ids.lock().unwrap().remove(0)
							} else if next_sub % 2 == 0 {
								json!(next_sub)
							} else {
								json!(format!("s{next_sub}"))
							};
							live_subs.push(sid.clone());
							Ans::Ok(sid)
						} else {
							next_val += 1;
							Ans::Ok(json!(next_val))
						};
						(ans_to_text(id, &a), Answer { nonce, id: id.to_string(), ans: a, push_seq: 0, kind: "first" })
					};
					if !is_batch {
						let (text, mut a) = mk(ids[0].0, &ids[0].1, is_sub);
						a.push_seq = wire.push_text(text);
						answered.push(ids[0].clone());
						peer_log.lock().unwrap().answers.push(a);
					} else {
						// batch reply in a drawn permutation
						let mut parts: Vec<(String, Answer)> = ids.iter().map(|i| mk(i.0, &i.1, false)).collect();
						if hostile && parts.len() > 1 && rt::chance("omit_entries", 1, 3) {
							// hostile: leave out some entries of the reply
							peer_log.lock().unwrap().hostile_actions += 1;
							rt::probe("hostile_action");
							for _ in 0..rt::draw_range("omit_n", 1, parts.len() as u32 - 1) {
								let j = rt::draw("omit_pos", parts.len() as u32) as usize;
								parts.remove(j);
							}
						}
						let mut order = Vec::new();
						while !parts.is_empty() {
							let j = rt::draw("perm", parts.len() as u32) as usize;
							order.push(parts.remove(j));
						}
						let mut texts: Vec<String> = order.iter().map(|p| p.0.clone()).collect();
						// the server may pack notifications of live subscriptions into the same array
						if !live_subs.is_empty() && rt::chance("notifs_in_batch_reply", 1, 3) {
							rt::probe("notifs_in_batch_reply");
							for _ in 0..rt::draw_range("notifs_in_batch_n", 1, 3) {
								next_val += 1;
								let at = rt::draw("notif_at", texts.len() as u32 + 1) as usize;
								texts.insert(at, sub_notif("n", rt::pick("ls", &live_subs), &json!(next_val)));
							}
						}
						let text = format!("[{}]", texts.join(","));
						let seq = wire.push_text(text);
						for (_, mut a) in order {
							a.push_seq = seq;
							peer_log.lock().unwrap().answers.push(a);
						}
					}
				}
				5 => {
					let ms = rt::draw_range("lat", 1, 40);
					tokio::time::sleep(Duration::from_millis(ms as u64)).await;
				}
				6 => {
					// noise: notifications, singly or grouped
					rt::probe("noise");
					let mut items = Vec::new();
					for _ in 0..rt::draw_range("noise_n", 1, 3) {
						next_val += 1;
						items.push(match rt::draw("noise_kind", 3) {
							0 => method_notif("noise", Some(&json!([next_val]))),
							1 if !live_subs.is_empty() => sub_notif("n", rt::pick("ls", &live_subs), &json!(next_val)),
							_ => sub_notif("n", &json!(424242), &json!(next_val)),
						});
					}
					if items.len() > 1 && rt::chance("group", 1, 2) {
						wire.push_text(format!("[{}]", items.join(",")));
					} else {
						for i in items {
							wire.push_text(i);
						}
					}
				}
				_ => rt::yield_n(1).await,
			}
		}
	})
}

/// Execute one front-end operation against the client and record its outcome.
pub async fn run_op(client: &Client, ti: usize, op: &PlanOp, nonce_ctr: &std::sync::atomic::AtomicU64, held: &mut Vec<Subscription<Value>>) -> OpRec {
	let fresh = || nonce_ctr.fetch_add(1, std::sync::atomic::Ordering::Relaxed);
	match op.clone() {
		PlanOp::Call => {
			let n = fresh();
			rt::event("op-call", format!("t{ti} nonce={n}"));
			let r: Result<Value, Error> = client.request("m", rpc_params![n]).await;
			let st = rt::event("op-done", format!("t{ti} nonce={n} {r:?}"));
			let outcome = match r {
				Ok(v) => Outcome::Call(Ok(v.clone()), Some(Ans::Ok(v))),
				Err(e) => match client_err_to_ans(&e) {
					Ok(a) => Outcome::Call(Err(format!("{e:?}")), Some(a)),
					Err(s) => Outcome::Call(Err(s), None),
				},
			};
			return OpRec { nonces: vec![n], done_stamp: st, outcome };
		}
		PlanOp::Batch(k) => {
			let nonces: Vec<u64> = (0..k).map(|_| fresh()).collect();
			let mut b = BatchRequestBuilder::new();
			for n in &nonces {
				b.insert("m", rpc_params![*n]).unwrap();
			}
			rt::event("op-batch", format!("t{ti} nonces={nonces:?}"));
			let r: Result<BatchResponse<Value>, Error> = client.batch_request(b).await;
			let st = rt::event("op-done", format!("t{ti} nonces={nonces:?} {r:?}"));
			let outcome = match r {
				Ok(br) => Outcome::Batch(Ok(br
					.into_iter()
					.map(|e| match e {
						Ok(v) => Ans::Ok(v),
						Err(o) => Ans::Err(
							o.code() as i64,
							o.message().to_string(),
							o.data().map(|d| serde_json::from_str(d.get()).unwrap()),
						),
					})
					.collect())),
				Err(e) => Outcome::Batch(Err(format!("{e:?}"))),
			};
			return OpRec { nonces, done_stamp: st, outcome };
		}
		PlanOp::Subscribe => {
			let n = fresh();
			rt::event("op-sub", format!("t{ti} nonce={n}"));
			let r: Result<Subscription<Value>, Error> = client.subscribe("sub", rpc_params![n], "unsub").await;
			let st = rt::event("op-done", format!("t{ti} nonce={n} sub ok={}", r.is_ok()));
			let outcome = match r {
				Ok(s) => {
					let sid = match s.kind() {
						SubscriptionKind::Subscription(id) => serde_json::to_value(id).unwrap(),
						_ => Value::Null,
					};
					held.push(s);
					Outcome::Sub(Ok(sid.clone()), Some(Ans::Ok(sid)))
				}
				Err(e) => match client_err_to_ans(&e) {
					Ok(a) => Outcome::Sub(Err(format!("{e:?}")), Some(a)),
					Err(s) => Outcome::Sub(Err(s), None),
				},
			};
			return OpRec { nonces: vec![n], done_stamp: st, outcome };
		}
		PlanOp::CallCancelled(k) => {
			let n = fresh();
			rt::event("op-call-cancellable", format!("t{ti} nonce={n} polls={k}"));
			let fut = client.request::<Value, _>("m", rpc_params![n]);
			tokio::pin!(fut);
			let r: Option<Result<Value, Error>> = tokio::select! {
				biased;
				r = &mut fut => Some(r),
				_ = rt::yield_n(k) => None,
			};
			let st = rt::event("op-done", format!("t{ti} nonce={n} cancellable {r:?}"));
			let outcome = match r {
				None => {
					rt::probe("call_cancelled");
					Outcome::Cancelled
				}
				Some(Ok(v)) => Outcome::Call(Ok(v.clone()), Some(Ans::Ok(v))),
				Some(Err(e)) => match client_err_to_ans(&e) {
					Ok(a) => Outcome::Call(Err(format!("{e:?}")), Some(a)),
					Err(s) => Outcome::Call(Err(s), None),
				},
			};
			return OpRec { nonces: vec![n], done_stamp: st, outcome };
		}
		PlanOp::Handler => {
			let n = fresh();
			rt::event("op-handler", format!("t{ti} nonce={n}"));
			let r: Result<Subscription<Value>, Error> = client.subscribe_to_method(&format!("mn{n}")).await;
			let st = rt::event("op-done", format!("t{ti} nonce={n} handler ok={} {:?}", r.is_ok(), r.as_ref().err()));
			let outcome = match r {
				Ok(s) => {
					held.push(s);
					Outcome::Handler(Ok(()))
				}
				Err(e) => Outcome::Handler(Err(format!("{e:?}"))),
			};
			return OpRec { nonces: vec![n], done_stamp: st, outcome };
		}
		PlanOp::Notif => {
			let n = fresh();
			let r = client.notification("note", rpc_params![n]).await;
			let st = rt::event("op-done", format!("t{ti} notif nonce={n} {r:?}"));
			return OpRec { nonces: vec![n], done_stamp: st, outcome: Outcome::Notif(r.map_err(|e| format!("{e:?}"))) };
		}
	}
}

pub async fn scenario() {
	// ---------------- plan (drawn up front) ----------------
	let n_front = rt::draw_range("n_front", 2, 5);
	let max_conc = *rt::pick("max_conc", &[256usize, 1, 2, 4]);
	let id_kind_str = rt::chance("id_kind", 1, 3);
	let hostile = rt::chance("hostile", 1, 4);
	let mut plans: Vec<Vec<PlanOp>> = Vec::new();
	for _ in 0..n_front {
		let k = rt::draw_range("n_ops", 1, 3);
		let mut v = Vec::new();
		for _ in 0..k {
			v.push(match rt::draw("op", 20) {
				0..=9 => PlanOp::Call,
				10 | 11 => PlanOp::CallCancelled(rt::draw_range("cancel_after", 1, 8)),
				12..=15 => PlanOp::Batch(rt::draw_range("batch_n", 1, 4)),
				16..=17 => PlanOp::Subscribe,
				18 => PlanOp::Handler,
				_ => PlanOp::Notif,
			});
		}
		plans.push(v);
	}
	rt::event(
		"plan",
		format!("fronts={plans:?} max_conc={max_conc} id_str={id_kind_str} hostile={hostile}"),
	);

	let (wire, tx, rx) = Wire::new();
	let (ping, req_timeout) = super::draw_ping(10);
	let mut builder = Client::builder();
	if let Some(p) = ping {
		builder = builder.enable_ws_ping(p);
	}
	let sub_buf = *rt::pick("sub_buf", &[1024usize, 1, 2]);
	let builder = builder
		.max_buffer_capacity_per_subscription(sub_buf)
		.max_concurrent_requests(max_conc)
		.id_format(if id_kind_str { IdKind::String } else { IdKind::Number })
		.request_timeout(req_timeout);
	// a second client built from a clone of the same builder, with a connection and a (friendly) peer of its own: the
	// two have nothing in common, though both start counting their request ids at 0
	let twin = if rt::chance("twin_client", 1, 5) {
		rt::probe("twin_client");
		let (wire2, tx2, rx2) = Wire::new();
		let client2 = Arc::new(builder.clone().build_with_tokio(tx2, rx2));
		let log2: Arc<Mutex<PeerLog>> = Arc::default();
		let peer2 = spawn_peer(wire2.clone(), log2.clone(), PeerCfg { hostile: false, id_kind_str });
		Some((wire2, client2, log2, peer2))
	} else {
		None
	};
	let client = Arc::new(builder.build_with_tokio(tx, rx));

	let ops: Arc<Mutex<Vec<OpRec>>> = Arc::default();
	let peer_log: Arc<Mutex<PeerLog>> = Arc::default();
	let nonce_ctr = Arc::new(std::sync::atomic::AtomicU64::new(1));

	let peer = spawn_peer(wire.clone(), peer_log.clone(), PeerCfg { hostile, id_kind_str });

	// ---------------- front-ends ----------------
	let mut hs = Vec::new();
	for (ti, plan) in plans.into_iter().enumerate() {
		let client = client.clone();
		let ops = ops.clone();
		let nonce_ctr = nonce_ctr.clone();
		hs.push(rt::spawn("front", async move {
			let mut held: Vec<Subscription<Value>> = Vec::new();
			for op in plan {
				let rec = run_op(&client, ti, &op, &nonce_ctr, &mut held).await;
				ops.lock().unwrap().push(rec);
				// a handle that goes away makes the background task unsubscribe on its own, while other work is in flight
				if !held.is_empty() && rt::chance("drop_held", 1, 3) {
					rt::probe("sub_handle_dropped");
					held.pop();
				}
			}
			drop(held);
		}));
	}
	// the twin's own front-end runs concurrently with the others
	let twin_ops: Arc<Mutex<Vec<OpRec>>> = Arc::default();
	let twin_nonce = Arc::new(std::sync::atomic::AtomicU64::new(5000));
	if let Some((_, client2, _, _)) = &twin {
		let (client2, twin_ops, twin_nonce) = (client2.clone(), twin_ops.clone(), twin_nonce.clone());
		let n_ops = rt::draw_range("twin_ops", 1, 3);
		hs.push(rt::spawn("front-twin", async move {
			let mut held: Vec<Subscription<Value>> = Vec::new();
			for _ in 0..n_ops {
				let op = if rt::chance("twin_batch", 1, 4) { PlanOp::Batch(2) } else { PlanOp::Call };
				let rec = run_op(&client2, 77, &op, &twin_nonce, &mut held).await;
				twin_ops.lock().unwrap().push(rec);
			}
		}));
	}
	for h in hs {
		let _ = h.await;
	}
	// ---------------- oracle ----------------
	check(&wire, &ops.lock().unwrap(), &peer_log.lock().unwrap(), hostile);
	if let Some((wire2, client2, log2, peer2)) = twin {
		check(&wire2, &twin_ops.lock().unwrap(), &log2.lock().unwrap(), false);
		drop(client2);
		let _ = peer2.await;
	}
	drop(client);
	let _ = peer.await;
}

fn check(wire: &Wire, ops: &[OpRec], peer: &PeerLog, hostile: bool) {
	// nonce -> wire id
	let mut id_of: BTreeMap<u64, String> = BTreeMap::new();
	{
		let w = wire.lock();
		for m in &w.out_log {
			let mut reg = |p: &Parsed| {
				if let Parsed::Call { id, params, method } = p {
					if method != "unsub" {
						if let Some(n) = nonce_of(params) {
							id_of.insert(n, id.to_string());
						}
					}
				}
			};
			match parse_out(&m.text) {
				Parsed::Batch(es) => es.iter().for_each(&mut reg),
				p => reg(&p),
			}
		}
	}
	let first_answer = |n: u64| peer.answers.iter().find(|a| a.nonce == Some(n));
	let delivered_before = |seq: u64, stamp: u64| wire.delivered_stamp(seq).is_some_and(|d| d < stamp);
	let clean = !hostile || peer.hostile_actions == 0;
	let mut concurrent_seen = false;
	for op in ops {
		let check_one = |n: u64, got: &Ans, what: &str| {
			let Some(id) = id_of.get(&n) else {
				rt::violate(P, "unattributable", format!("{what}:no-wire-id"), format!("op nonce={n} completed with {got:?} but never reached the wire"));
				return;
			};
			match first_answer(n) {
				// the reply left this entry out and the client put its own "no answer" marker there
				None if what == "batch" && *got == Ans::Err(0, String::new(), None) => {}
				None => rt::violate(P, "unattributable", format!("{what}:no-answer"), format!("op nonce={n} id={id} completed with {got:?} but the peer never answered that id")),
				Some(a) => {
					if &a.ans != got {
						// is it somebody else's answer?
						let other = peer.answers.iter().find(|b| &b.ans == got);
						let sig = match other {
							Some(b) if b.nonce != Some(n) => format!("{what}:other-request"),
							Some(b) => format!("{what}:{}-answer", b.kind),
							None => format!("{what}:altered"),
						};
						rt::violate(P, "wrong-answer", sig, format!("op nonce={n} id={id} completed with {got:?}, peer's first answer for that id was {:?}", a.ans));
					} else if !delivered_before(a.push_seq, op.done_stamp) {
						rt::violate(P, "unattributable", format!("{what}:before-delivery"), format!("op nonce={n} id={id} completed before its answer was delivered"));
					}
				}
			}
		};
		match &op.outcome {
			Outcome::Call(_, Some(a)) => check_one(op.nonces[0], a, "call"),
			Outcome::Sub(_, Some(a)) => check_one(op.nonces[0], a, "sub"),
			Outcome::Batch(Ok(list)) => {
				if list.len() != op.nonces.len() {
					rt::violate(P, "wrong-answer", "batch:len", format!("batch {:?} returned {} entries", op.nonces, list.len()));
				}
				for (n, a) in op.nonces.iter().zip(list) {
					check_one(*n, a, "batch");
				}
			}
			Outcome::Call(Err(e), None) | Outcome::Sub(Err(e), None) | Outcome::Batch(Err(e)) => {
				if clean {
					rt::violate(P, "lost", "friendly-run-failure", format!("op {:?} failed with {e} although the peer answered every id exactly once and no fault was injected", op.nonces));
				}
			}
			Outcome::Notif(r) | Outcome::Handler(r) => {
				if let (Err(e), true) = (r, clean) {
					rt::violate(P, "lost", "friendly-notif-failure", format!("notification / handler registration failed: {e}"));
				}
			}
			_ => {}
		}
	}
	// non-trivial: at least two answers were delivered in an order different from the order the requests were sent
	let w = wire.lock();
	let sent_order: Vec<String> = w
		.out_log
		.iter()
		.filter_map(|m| match parse_out(&m.text) {
			Parsed::Call { id, .. } => Some(id.to_string()),
			Parsed::Batch(es) => es.iter().find_map(|e| if let Parsed::Call { id, .. } = e { Some(id.to_string()) } else { None }),
			_ => None,
		})
		.collect();
	let mut ans_order: Vec<String> = Vec::new();
	for a in &peer.answers {
		if a.kind == "first" && !ans_order.contains(&a.id) && sent_order.contains(&a.id) {
			ans_order.push(a.id.clone());
		}
	}
	let sent_f: Vec<&String> = sent_order.iter().filter(|i| ans_order.contains(i)).collect();
	if sent_f.iter().zip(ans_order.iter()).any(|(a, b)| *a != b) {
		concurrent_seen = true;
	}
	if concurrent_seen {
		rt::probe("nontrivial");
	}
	if !clean {
		rt::probe("hostile_run");
	}
}

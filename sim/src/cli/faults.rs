//! C09 — on connection failure everything pending fails promptly with the cause.
//!
//! Real client, friendly scripted peer, one planned fault per run: a transport fault (send error, receive
//! error, peer close) or a poison message from a catalogue ("any bytes the server may send"). The fault fires at
//! a seam-event position that is drawn (search) or swept over every position of a fault-free base run
//! (fault_enumeration). The scheduler decides the relative order of the failing background task, the shutdown
//! watcher and the front-end callers.

use std::collections::BTreeMap;
use std::sync::atomic::AtomicU64;
use std::sync::{Arc, Mutex};
use std::time::Duration;

use jsonrpsee_core::client::{Client, IdKind, Subscription, SubscriptionClientT};
use jsonrpsee_core::rpc_params;
use serde_json::{Value, json};

use super::calls::{Ans, OpRec, Outcome, PeerCfg, PeerLog, PlanOp, run_op, spawn_peer};
use super::{Fault, InItem, PLACEHOLDER, Parsed, Wire, nonce_of, parse_out};
use crate::rt;

const P: &str = "C09";
pub const POISON_VALUE: u64 = 999_999;
pub const N_POISON: u32 = 26;
/// Fault kinds used by the sweep: 0 send error, 1 receive error, 2 peer close, 3..8 selected poison kinds, 9 the
/// next send never completes.
pub const SWEEP_KINDS: u32 = 10;
const SWEEP_POISON: [u32; 6] = [0, 4, 5, 9, 11, 14];
/// Fault kind "the peer goes silent" (only with client pings enabled: the client then gives up for inactivity).
const SILENCE: u32 = 100;
/// Fault kind "the peer stops reading": the transport's `send` never completes from some point on. The client cannot
/// know; what must still hold is that no call, batch or subscribe stays pending beyond its request timeout.
const SEND_HANG: u32 = 101;
/// Two faults at once: a send that never completes and, while it hangs, a receive error. The connection has failed
/// and the client has been told (by `receive()`): everything the property says about a receive error applies, stuck
/// send or not.
const SEND_HANG_AND_RECV_ERROR: u32 = 102;

/// Runs that carry the run parameter `bigmsg` (every eighth run of the seeded search) replace the poison message by a
/// long one: valid JSON that is not JSON-RPC, 6-12 KB of multi-byte characters behind 0-3 bytes of padding, so that
/// whatever byte offset the client might cut, slice or index its echo of the message at, some run has that offset
/// inside a character (seeded change C09-r7-m1).
pub fn big_poison(k: u32) -> InItem {
	let pad = (k % 4) as usize;
	let ch = ["\u{1D11E}", "\u{e9}", "\u{20ac}"][(k / 4 % 3) as usize];
	InItem::Text(format!(r#"{{"foo":"{}{}"}}"#, "a".repeat(pad), ch.repeat(3000)))
}

pub fn poison(k: u32, id_str: bool) -> InItem {
	let t = |s: &str| InItem::Text(s.to_string());
	let id0 = if id_str { "\"0\"" } else { "0" };
	match k {
		0 => t("xyz"),
		1 => t(""),
		2 => t(r#"{"jsonrpc":"2.0","id":"#),
		3 => InItem::Bytes(vec![0xff, 0xfe, b'{', 0x80]),
		4 => t("[]"),
		5 => t(r#"{"jsonrpc":"2.0","id":77777,"result":1}"#),
		6 => t(r#"{"jsonrpc":"2.0","id":"nope","result":1}"#),
		7 => t(r#"{"jsonrpc":"2.0","id":null,"error":{"code":-32700,"message":"Parse error"}}"#),
		8 => t(r#"{"jsonrpc":"2.0","id":18446744073709551615,"result":1}"#),
		9 => t(r#"[{"jsonrpc":"2.0","id":18446744073709551615,"result":1}]"#),
		10 => InItem::Text(format!(r#"[{{"jsonrpc":"2.0","id":{id0},"result":{POISON_VALUE}}}]"#)),
		11 => InItem::Text(format!(r#"{{"jsonrpc":"2.0","id":{id0},"result":{POISON_VALUE}}}"#)),
		12 => {
			let one = r#"{"jsonrpc":"2.0","method":"noise","params":[1]}"#;
			InItem::Text(format!("[{}]", vec![one; 10_000].join(",")))
		}
		13 => InItem::Text(format!("{}{}", "[".repeat(200), "]".repeat(200))),
		14 => InItem::Text(format!(r#"{{"jsonrpc":"2.0","id":{id0},"result":1,"error":{{"code":1,"message":"m"}}}}"#)),
		15 => t(r#"{"jsonrpc":"2.0","method":"n","params":{"subscription":{"a":1},"result":1}}"#),
		16 => t(r#"{"jsonrpc":"2.0","method":"x"}"#),
		17 => t("   \n\t "),
		18 => t("42"),
		19 => t("null"),
		20 => t(r#"{"jsonrpc":"2.0","id":9007199254740993,"result":1}"#),
		21 => InItem::Text(format!(r#"{{"jsonrpc":"2.0","id":{id0}.0,"result":1}}"#)),
		22 => t(r#"{"jsonrpc":"2.0","id":-1,"result":1}"#),
		23 => t(r#"[{"jsonrpc":"2.0","id":18446744073709551614,"result":1},{"jsonrpc":"2.0","id":0,"result":2}]"#),
		24 => t(r#"[{"jsonrpc":"2.0","method":"n","params":{"subscription":1,"error":"bye"}}]"#),
		_ => t(r#"[{"jsonrpc":"2.0","id":"18446744073709551615","result":1}]"#),
	}
}

fn describe_fault(kind: u32) -> String {
	match kind {
		0 => "send-error".into(),
		1 => "recv-error".into(),
		2 => "peer-close".into(),
		SILENCE => "peer-silent".into(),
		SEND_HANG => "send-hangs".into(),
		SEND_HANG_AND_RECV_ERROR => "send-hangs+recv-error".into(),
		k => format!("poison-{}", k - 3),
	}
}

pub async fn scenario() {
	// ---------------- plan ----------------
	let sweep_base = rt::param("sweep_base").is_some();
	let big = rt::param("bigmsg").is_some();
	let n_front = rt::draw_range("n_front", 1, 4);
	let max_conc = *rt::pick("max_conc", &[256usize, 1, 2]);
	let id_str = rt::chance("id_kind", 1, 3);
	let presub = rt::chance("presub", 1, 3);
	let mut plans: Vec<Vec<PlanOp>> = Vec::new();
	for _ in 0..n_front {
		let k = rt::draw_range("n_ops", 1, 2);
		let mut v = Vec::new();
		for _ in 0..k {
			v.push(match rt::draw("op", 20) {
				0..=11 => PlanOp::Call,
				12..=14 => PlanOp::Batch(rt::draw_range("batch_n", 1, 3)),
				15..=16 => PlanOp::Subscribe,
				17 => PlanOp::Handler,
				_ => PlanOp::Notif,
			});
		}
		plans.push(v);
	}
	let n_late = rt::draw_range("n_late", 1, 3);
	// a connection whose sends fail is usually dead both ways: nothing arrives after the first failed send
	let silent = rt::chance("silent_after_send_fail", 1, 2);
	let close_mode = if sweep_base || rt::param("fault_at").is_some() { 0 } else { *rt::pick("close_mode", &[0u32, 0, 0, 1, 2]) };
	// client pings (1 s) with an inactivity limit on the virtual clock; the scripted peer answers every ping
	let ping_mode = !sweep_base && rt::param("fault_at").is_none() && rt::chance("ping_mode", 1, 5);
	let ping_cfg = if ping_mode { Some((*rt::pick("inactive_ms", &[1500u64, 2000, 3500]), *rt::pick("max_failures", &[1usize, 2, 3]))) } else { None };
	// flood mode: three tasks keep sending notifications without pause, so that the request queue (capacity 1-2) is
	// never empty and every send takes 5 ms: shutdown has to happen under load; short request timeout to keep it cheap
	let flood = !sweep_base && rt::param("fault_at").is_none() && !ping_mode && rt::chance("flood", 1, 10);
	let max_conc = if flood { *rt::pick("flood_max_conc", &[1usize, 2]) } else { max_conc };
	let req_timeout = if flood { Duration::from_secs(3) } else { Duration::from_secs(60) };
	// the fault: (kind, position). kind: 0 send error, 1 recv error, 2 peer close, 3+k poison k
	let (kind, pos, front): (Option<u32>, u64, bool) = if let Some(p) = rt::param("fault_at") {
		let fk = rt::param("fault_kind").unwrap_or(0) as u32;
		let kind = if fk < 3 {
			fk
		} else if fk == 9 {
			SEND_HANG
		} else {
			3 + SWEEP_POISON[(fk as usize - 3) % SWEEP_POISON.len()]
		};
		(Some(kind), p, false)
	} else if sweep_base || rt::chance("nofault", 1, 12) {
		(None, 0, false)
	} else {
		let kind = match rt::draw("fault_class", 5) {
			_ if ping_mode && rt::chance("silence", 1, 2) => SILENCE,
			4 => *rt::pick("quiet_fault", &[SILENCE, SEND_HANG, SEND_HANG_AND_RECV_ERROR]),
			0 => 0,
			1 => rt::draw_range("tf", 1, 2),
			_ => 3 + rt::draw("poison", N_POISON),
		};
		// (in flood mode every notification is a seam event: the fault comes later, when the flood is in full swing)
		(Some(kind), rt::draw_range("fault_pos", 1, 30) as u64 + if flood { 15 } else { 0 }, rt::chance("front", 1, 2))
	};
	rt::event("plan", format!("fronts={plans:?} late={n_late} silent={silent} flood={flood} ping={ping_cfg:?} max_conc={max_conc} id_str={id_str} presub={presub} close_mode={close_mode} fault={:?}@{pos}{}", kind.map(describe_fault), if big { " big" } else { "" }));

	let (wire, tx, rx) = Wire::new();
	{
		let mut w = wire.lock();
		w.close_mode = close_mode;
		w.send_ms = if flood { 5 } else { 0 };
		w.silent_after_send_fail = silent;
		if let Some(k) = kind {
			w.fault_at = Some(pos);
			w.fault = Some(match k {
				0 => Fault::SendError,
				1 => Fault::Recv { item: InItem::Err("injected receive error".into()), front },
				2 => Fault::Recv { item: InItem::Err("injected: connection closed by peer".into()), front },
				SILENCE => Fault::Silence,
				SEND_HANG => Fault::SendHang,
				SEND_HANG_AND_RECV_ERROR => Fault::SendHangThenRecv(InItem::Err("injected receive error".into())),
				k if big => {
					rt::probe("big_multibyte_poison");
					Fault::Recv { item: big_poison(k - 3), front }
				}
				k => Fault::Recv { item: poison(k - 3, id_str), front },
			});
		}
	}
	let mut builder = Client::builder();
	if let Some((inactive_ms, max_failures)) = ping_cfg {
		rt::probe("client_pings_enabled");
		builder = builder.enable_ws_ping(
			jsonrpsee_core::client::async_client::PingConfig::new()
				.ping_interval(Duration::from_secs(1))
				.inactive_limit(Duration::from_millis(inactive_ms))
				.max_failures(max_failures),
		);
	}
	let client = Arc::new(
		builder
			.max_concurrent_requests(max_conc)
			.id_format(if id_str { IdKind::String } else { IdKind::Number })
			.request_timeout(req_timeout)
			.build_with_tokio(tx, rx),
	);
	let ops: Arc<Mutex<Vec<(OpRec, u64, tokio::time::Instant, tokio::time::Instant)>>> = Arc::default(); // (.., invoked at, completed at)
	// somebody waits on on_disconnect() from the very beginning, while the connection is still healthy
	let early_disc: Arc<Mutex<Option<String>>> = Arc::default();
	let early_watcher = {
		let (client, out) = (client.clone(), early_disc.clone());
		rt::spawn("early-disconnect-watcher", async move {
			let e = client.on_disconnect().await;
			rt::event("early-on-disconnect", format!("{e:?}"));
			*out.lock().unwrap() = Some(format!("{e:?}"));
		})
	};
	let peer_log: Arc<Mutex<PeerLog>> = Arc::default();
	let nonce_ctr = Arc::new(AtomicU64::new(1));
	let peer = spawn_peer(wire.clone(), peer_log.clone(), PeerCfg { hostile: false, id_kind_str: id_str });

	// optional pre-established subscription with a consumer
	let consumer_ended: Arc<Mutex<Option<(u64, String)>>> = Arc::default();
	let mut consumer = None;
	if presub {
		let r: Result<Subscription<Value>, _> = client.subscribe("sub", rpc_params![0u64], "unsub").await;
		match r {
			Ok(mut sub) => {
				let ce = consumer_ended.clone();
				consumer = Some(rt::spawn("consumer", async move {
					while let Some(_item) = sub.next().await {}
					let st = rt::event("stream-ended", format!("{:?}", sub.close_reason()));
					*ce.lock().unwrap() = Some((st, format!("{:?}", sub.close_reason())));
					// keep the handle alive until the end so that drop does not send an unsubscribe
					sub
				}));
			}
			Err(e) => {
				rt::event("presub-failed", format!("{e:?}"));
			}
		}
	}

	// flood producers
	let flood_stop = Arc::new(std::sync::atomic::AtomicBool::new(false));
	let mut flooders = Vec::new();
	if flood {
		rt::probe("flood_mode");
		for _ in 0..3 {
			let (client, stop) = (client.clone(), flood_stop.clone());
			flooders.push(rt::spawn("flood", async move {
				let mut k = 0u64;
				while !stop.load(std::sync::atomic::Ordering::Relaxed) {
					k += 1;
					if jsonrpsee_core::client::ClientT::notification(&*client, "flood", rpc_params![k]).await.is_err() {
						break;
					}
				}
			}));
		}
		// let the flood get going before anything else happens
		tokio::time::sleep(Duration::from_millis(30)).await;
	}
	// front-ends
	let mut hs = Vec::new();
	for (ti, plan) in plans.into_iter().enumerate() {
		let client = client.clone();
		let ops = ops.clone();
		let nonce_ctr = nonce_ctr.clone();
		hs.push(rt::spawn("front", async move {
			let mut held: Vec<Subscription<Value>> = Vec::new();
			for op in plan {
				let t0 = (rt::now_stamp(), tokio::time::Instant::now());
				let rec = run_op_bounded(&client, ti, &op, &nonce_ctr, &mut held).await;
				ops.lock().unwrap().push((rec, t0.0, t0.1, tokio::time::Instant::now()));
				// a subscription handle that goes away makes the background task send an unsubscribe call on its own
				if !held.is_empty() && rt::chance("drop_held", 1, 3) {
					rt::event("op-drop-sub", format!("t{ti}"));
					rt::probe("sub_handle_dropped");
					held.pop();
				}
			}
			held
		}));
	}
	let mut held_all = Vec::new();
	for h in hs {
		if let Ok(v) = h.await {
			held_all.extend(v);
		}
	}
	// late operations (after the fault, if it fired)
	let first_phase = ops.lock().unwrap().len();
	for i in 0..n_late {
		let op = match i {
			0 => PlanOp::Call,
			1 => PlanOp::Subscribe,
			_ => PlanOp::Handler,
		};
		let t0 = (rt::now_stamp(), tokio::time::Instant::now());
		let rec = run_op_bounded(&client, 99, &op, &nonce_ctr, &mut held_all).await;
		ops.lock().unwrap().push((rec, t0.0, t0.1, tokio::time::Instant::now()));
	}
	// let everything settle (fires every timer below the watchdog horizon; with pings on the timers never end, so a
	// span longer than the request timeout stands in for quiescence)
	if ping_mode {
		tokio::time::sleep(Duration::from_secs(70)).await;
	} else if flood {
		tokio::time::sleep(req_timeout + Duration::from_secs(2)).await;
		flood_stop.store(true, std::sync::atomic::Ordering::Relaxed);
		for f in flooders {
			let _ = tokio::time::timeout(Duration::from_secs(5), f).await;
		}
		rt::quiesce().await;
	} else {
		rt::quiesce().await;
	}

	// ---------------- oracle ----------------
	let connected = client.is_connected();
	let on_disc = if !connected {
		match tokio::time::timeout(Duration::from_secs(1), client.on_disconnect()).await {
			Ok(e) => Some(format!("{e:?}")),
			Err(_) => {
				rt::violate(P, "on-disconnect-hangs", "not-connected", "is_connected() is false but on_disconnect() does not resolve");
				None
			}
		}
	} else {
		None
	};
	rt::event("end-state", format!("connected={connected} on_disconnect={on_disc:?}"));
	// the watcher that has been waiting since before the failure sees the same cause
	match (&on_disc, early_disc.lock().unwrap().clone()) {
		(Some(late), Some(early)) => {
			if early.contains(PLACEHOLDER) {
				rt::violate(P, "placeholder-cause", "on_disconnect:waiting-since-before-the-failure", format!("an on_disconnect() that was already waiting when the connection failed resolved with the placeholder: {early}"));
			} else if &early != late && !late.contains(PLACEHOLDER) {
				rt::violate(P, "inconsistent-cause", "on_disconnect:early-vs-late", format!("on_disconnect() waiting since before the failure resolved with {early}, one started afterwards with {late}"));
			}
		}
		(Some(_), None) => rt::violate(P, "on-disconnect-hangs", "waiting-since-before-the-failure", "the client is disconnected but an on_disconnect() that was already waiting has not resolved"),
		_ => {}
	}
	early_watcher.abort();
	check(&wire, &ops.lock().unwrap(), &peer_log.lock().unwrap(), kind, connected, on_disc, first_phase, presub && consumer.is_some(), &consumer_ended.lock().unwrap(), ping_mode, req_timeout);
	if sweep_base {
		rt::probe_n("seam_events", wire.lock().seam_count);
	}
	drop(held_all);
	drop(client);
	let _ = tokio::time::timeout(Duration::from_secs(5), peer).await;
	if let Some(c) = consumer {
		let _ = tokio::time::timeout(Duration::from_secs(1), c).await;
	}
}

/// `subscribe_to_method` is not under the request timeout (and not named by the property): when the request queue is
/// full behind a transport send that never completes it waits for good. The harness gives up on it after a while
/// and does not judge it.
async fn run_op_bounded(client: &Client, ti: usize, op: &PlanOp, nonce_ctr: &AtomicU64, held: &mut Vec<Subscription<Value>>) -> OpRec {
	if !matches!(op, PlanOp::Handler) {
		return run_op(client, ti, op, nonce_ctr, held).await;
	}
	match tokio::time::timeout(Duration::from_secs(300), run_op(client, ti, op, nonce_ctr, held)).await {
		Ok(r) => r,
		Err(_) => {
			rt::probe("handler_registration_given_up");
			OpRec { nonces: vec![], done_stamp: rt::event("op-given-up", format!("t{ti} subscribe_to_method")), outcome: Outcome::Cancelled }
		}
	}
}

#[allow(clippy::too_many_arguments)]
fn check(
	wire: &Wire,
	ops: &[(OpRec, u64, tokio::time::Instant, tokio::time::Instant)],
	peer: &PeerLog,
	kind: Option<u32>,
	connected: bool,
	on_disc: Option<String>,
	first_phase: usize,
	has_consumer: bool,
	consumer_ended: &Option<(u64, String)>,
	ping_mode: bool,
	req_timeout: Duration,
) {
	let w = wire.lock();
	let big = rt::param("bigmsg").is_some();
	let fault_name = kind.map(describe_fault).unwrap_or_else(|| "none".into());
	let transport_fault = matches!(kind, Some(0..=2) | Some(SEND_HANG_AND_RECV_ERROR));
	let silence = kind == Some(SILENCE);
	let fired = w.fault_fired_stamp;
	// did the client get to see the fault?
	let noticed: Option<u64> = match kind {
		Some(0) => w.send_failed_stamp,
		// the client gives up on a silent peer when its read task ends for inactivity
		Some(SILENCE) => fired.and_then(|f| w.rx_dropped_stamp.filter(|r| *r > f)),
		Some(SEND_HANG) => None,
		Some(_) => fired.and_then(|_| {
			// the fault item is the one pushed without a peer-push event: find a delivered item that equals it
			w.delivered.iter().find(|(_, _, it)| match (it, kind) {
				(InItem::Err(e), Some(1 | SEND_HANG_AND_RECV_ERROR)) => e.contains("injected receive error"),
				(InItem::Err(e), Some(2)) => e.contains("closed by peer"),
				(it, Some(k)) if k >= 3 && big => format!("{it:?}") == format!("{:?}", big_poison(k - 3)),
				(it, Some(k)) if k >= 3 => format!("{it:?}") == format!("{:?}", poison(k - 3, false)) || format!("{it:?}") == format!("{:?}", poison(k - 3, true)),
				_ => false,
			}).map(|d| d.1)
		}),
		None => None,
	};
	// nonce -> (wire id)
	let mut id_of: BTreeMap<u64, String> = BTreeMap::new();
	for m in &w.out_log {
		let mut reg = |p: &Parsed| {
			if let Parsed::Call { id, params, method } = p {
				if method != "unsub" {
					if let Some(n) = nonce_of(params) {
						id_of.insert(n, id.to_string());
					}
				}
			}
		};
		match parse_out(&m.text) {
			Parsed::Batch(es) => es.iter().for_each(&mut reg),
			p => reg(&p),
		}
	}
	let poison_target = |n: u64| id_of.get(&n).is_some_and(|i| i == "0" || i == "\"0\"");
	let genuine = |n: u64, a: &Ans| -> bool {
		peer.answers.iter().any(|x| x.nonce == Some(n) && &x.ans == a) || (poison_target(n) && *a == Ans::Ok(json!(POISON_VALUE)))
	};
	let mut causes: Vec<String> = Vec::new();
	let mut outstanding_at_fault = 0;
	for (idx, (op, inv_stamp, inv_t, done_t)) in ops.iter().enumerate() {
		let late = idx >= first_phase;
		// whatever happens to the connection: no call, batch or subscribe stays pending longer than the request timeout
		if matches!(op.outcome, Outcome::Call(..) | Outcome::Batch(..) | Outcome::Sub(..)) && done_t.duration_since(*inv_t) > req_timeout + Duration::from_secs(1) {
			rt::violate(P, "pending-longer-than-timeout", format!("{}:{fault_name}", match op.outcome { Outcome::Call(..) => "call", Outcome::Batch(..) => "batch", _ => "subscribe" }), format!("op {:?} completed {:?} after it was invoked (request timeout {req_timeout:?})", op.nonces, done_t.duration_since(*inv_t)));
		}
		if let Some(n) = noticed {
			if *inv_stamp < n && op.done_stamp > n {
				outstanding_at_fault += 1;
			}
		}
		let what = match &op.outcome {
			Outcome::Call(..) => "call",
			Outcome::Batch(..) => "batch",
			Outcome::Sub(..) => "subscribe",
			Outcome::Notif(..) => "notification",
			Outcome::Handler(..) => "handler",
			Outcome::Cancelled => "cancelled",
		};
		let phase = if late { "late" } else { "pending" };
		let mut on_err = |e: &str| {
			if e.contains("ServiceDisconnect") {
				rt::violate(P, "internal-error-leaked", format!("{what}:{phase}:{fault_name}"), format!("op {:?} failed with the internal ServiceDisconnect marker, which carries no cause: {e}", op.nonces));
			} else if e.contains(PLACEHOLDER) {
				rt::violate(P, "placeholder-cause", format!("{what}:{phase}:{fault_name}"), format!("op {:?} failed with the placeholder error instead of the disconnect cause: {e}", op.nonces));
			} else if e.contains("RequestTimeout") {
				let elapsed_before_fault = w.fault_fired_vtime.is_some_and(|ft| ft.duration_since(*inv_t) >= req_timeout);
				// a silent peer is only a failure once the client has given up on it
				let excused = if silence { !noticed.is_some_and(|n| op.done_stamp > n) } else { kind == Some(SEND_HANG) || elapsed_before_fault };
				if !excused {
					rt::violate(P, "stalled-until-timeout", format!("{what}:{phase}:{fault_name}"), format!("op {:?} was left pending until its request timeout instead of failing with the cause", op.nonces));
				}
			} else if e.starts_with("RestartNeeded(") {
				causes.push(e.to_string());
				if silence && !e.contains("ping/pong inactive") {
					rt::violate(P, "wrong-cause", format!("{what}:{phase}:{fault_name}"), format!("op {:?} failed with {e}, which is not the inactivity the client gave up for", op.nonces));
				}
				if transport_fault && !e.contains("injected") {
					rt::violate(P, "wrong-cause", format!("{what}:{phase}:{fault_name}"), format!("op {:?} failed with {e}, which does not carry the injected transport fault", op.nonces));
				}
				// (with pings on, a send that never completes keeps the pings from going out as well: the client then gives
				// up for inactivity, which is a legitimate end of a connection whose peer has stopped reading)
				let inactivity_after_hang = kind == Some(SEND_HANG) && ping_mode && e.contains("ping/pong inactive");
				if (kind.is_none() || kind == Some(SEND_HANG)) && !inactivity_after_hang {
					rt::violate(P, "spurious-disconnect", format!("{what}:{phase}"), format!("op {:?} failed with {e} although no fault was injected and the peer behaved", op.nonces));
				}
			} else if transport_fault || silence || kind.is_none() {
				rt::violate(P, "unexpected-error", format!("{what}:{phase}:{fault_name}"), format!("op {:?} failed with {e}", op.nonces));
			} else {
				rt::probe("other_error_after_poison");
			}
		};
		match &op.outcome {
			Outcome::Call(Ok(_), Some(a)) | Outcome::Sub(Ok(_), Some(a)) => {
				if !genuine(op.nonces[0], a) {
					rt::violate(P, "wrong-success", format!("{what}:{fault_name}"), format!("op {:?} succeeded with {a:?}, which the peer never sent for it", op.nonces));
				}
			}
			Outcome::Call(Err(_), Some(a)) | Outcome::Sub(Err(_), Some(a)) => {
				if !genuine(op.nonces[0], a) {
					rt::violate(P, "wrong-success", format!("{what}:err:{fault_name}"), format!("op {:?} completed with error object {a:?}, which the peer never sent for it", op.nonces));
				}
			}
			Outcome::Batch(Ok(list)) => {
				for (n, a) in op.nonces.iter().zip(list) {
					if !genuine(*n, a) && !matches!(a, Ans::Err(..)) {
						rt::violate(P, "wrong-success", format!("batch:{fault_name}"), format!("batch entry nonce={n} completed with {a:?}, which the peer never sent for it"));
					}
				}
			}
			Outcome::Call(Err(e), None) | Outcome::Sub(Err(e), None) | Outcome::Batch(Err(e)) => on_err(e),
			Outcome::Notif(Err(e)) | Outcome::Handler(Err(e)) => on_err(e),
			Outcome::Notif(Ok(())) | Outcome::Handler(Ok(())) => {}
			_ => {}
		}
		// late operations after a noticed transport fault must fail
		// (registering a notification handler involves no connection: it may still succeed while the client shuts down)
		if late && (transport_fault || silence) && noticed.is_some_and(|n| n < *inv_stamp) && !matches!(op.outcome, Outcome::Handler(_) | Outcome::Cancelled) {
			let failed = matches!(&op.outcome, Outcome::Call(Err(_), None) | Outcome::Sub(Err(_), None) | Outcome::Batch(Err(_)) | Outcome::Notif(Err(_)) | Outcome::Handler(Err(_)));
			if !failed {
				rt::violate(P, "late-op-not-failed", format!("{what}:{fault_name}"), format!("op {:?} issued after the connection failed did not fail: {:?}", op.nonces, op.outcome));
			}
		}
	}
	// end state
	let disconnected_expected = transport_fault && noticed.is_some();
	if disconnected_expected && connected {
		rt::violate(P, "still-connected", fault_name.clone(), "is_connected() is still true at quiescence after the transport failed");
	}
	if let Some(d) = &on_disc {
		if d.contains(PLACEHOLDER) {
			rt::violate(P, "placeholder-cause", format!("on_disconnect:{fault_name}"), format!("on_disconnect() resolved with the placeholder: {d}"));
		}
		if silence && noticed.is_some() && !d.contains("ping/pong inactive") {
			rt::violate(P, "wrong-cause", format!("on_disconnect:{fault_name}"), format!("on_disconnect() resolved with {d}"));
		}
		if transport_fault && noticed.is_some() && !d.contains("injected") {
			rt::violate(P, "wrong-cause", format!("on_disconnect:{fault_name}"), format!("on_disconnect() resolved with {d}"));
		}
		for c in &causes {
			if c != d && !c.contains(PLACEHOLDER) && !d.contains(PLACEHOLDER) {
				rt::violate(P, "inconsistent-cause", fault_name.clone(), format!("an operation failed with {c} but on_disconnect() reports {d}"));
				break;
			}
		}
	}
	if !causes.is_empty() && connected {
		rt::violate(P, "still-connected", format!("after-restart-needed:{fault_name}"), "operations failed with RestartNeeded but is_connected() is true at quiescence");
	}
	if has_consumer && !connected && consumer_ended.is_none() {
		rt::violate(P, "stream-not-ended", fault_name.clone(), "the connection is gone but an open subscription stream has not ended at quiescence");
	}
	if noticed.is_some() && outstanding_at_fault > 0 {
		rt::probe("nontrivial");
		rt::fingerprint(&fault_name);
	}
	if noticed.is_some() {
		rt::probe(match kind {
			Some(0) => "noticed.send_error",
			Some(1) => "noticed.recv_error",
			Some(SEND_HANG_AND_RECV_ERROR) => "noticed.recv_error_while_send_hangs",
			Some(2) => "noticed.peer_close",
			Some(SILENCE) => "noticed.silence",
			_ => "noticed.poison",
		});
	}
	if !connected && kind.is_some_and(|k| k >= 3 && k < SILENCE) {
		rt::probe("poison_caused_disconnect");
	}
}

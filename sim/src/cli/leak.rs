//! C18 — client bookkeeping returns to empty.
//!
//! Real client + hook H5 (table sizes). 1-3 front-end tasks run histories of cycles: call, batch, notification,
//! subscribe that is accepted / refused / answered with a malformed or duplicate subscription id and then ended
//! by unsubscribe / drop / server-side close / lag-closure, notification handlers registered and removed. The
//! peer acknowledges everything, in drawn order. At quiescence the four internal tables must be empty, and a
//! later message bearing an identifier of finished work must complete nothing.

use std::sync::atomic::{AtomicU64, Ordering};
use std::sync::{Arc, Mutex};
use std::time::Duration;

use jsonrpsee_core::client::{BatchResponse, Client, ClientT, Error, IdKind, Subscription, SubscriptionClientT};
use jsonrpsee_core::params::BatchRequestBuilder;
use jsonrpsee_core::rpc_params;
use jsonrpsee_core::verif;
use serde_json::{Value, json};

use super::{Parsed, Wire, err_response, method_notif, ok_response, parse_out, sub_close, sub_notif};
use crate::rt;

const P: &str = "C18";

#[derive(Debug, Clone, Copy, PartialEq)]
pub enum Cycle {
	Call,
	CallErr,
	Batch(u32),
	Notif,
	SubUnsubscribe,
	SubDrop,
	SubServerClose,
	SubLagThenDrop,
	SubLagThenUnsubscribe,
	SubRefused,
	SubMalformed,
	SubDuplicateId,
	HandlerDrop,
	HandlerUnsubscribe,
	HandlerLag,
	HandlerTwice,
	/// the server answers the call with an error whose id is null
	CallNullIdAnswer,
	/// `subscribe_to_method` whose future is dropped after k polls
	HandlerCancelled(u32),
	/// `subscribe` whose future is dropped after k polls (the server accepts it nevertheless)
	SubCancelled(u32),
}

fn draw_cycle() -> Cycle {
	match rt::draw("cycle", 24) {
		20 => Cycle::CallNullIdAnswer,
		21 => Cycle::HandlerCancelled(rt::draw_range("cancel_after", 1, 4)),
		22 | 23 => Cycle::SubCancelled(rt::draw_range("cancel_after", 1, 8)),
		0 | 1 => Cycle::Call,
		2 => Cycle::CallErr,
		3 => Cycle::Batch(rt::draw_range("bn", 1, 3)),
		4 => Cycle::Notif,
		5 | 6 => Cycle::SubUnsubscribe,
		7 | 8 => Cycle::SubDrop,
		9 | 10 => Cycle::SubServerClose,
		11 => Cycle::SubLagThenDrop,
		12 => Cycle::SubLagThenUnsubscribe,
		13 | 14 => Cycle::SubRefused,
		15 => Cycle::SubMalformed,
		16 => Cycle::SubDuplicateId,
		17 => Cycle::HandlerDrop,
		18 => match rt::draw("h", 2) {
			0 => Cycle::HandlerUnsubscribe,
			_ => Cycle::HandlerTwice,
		},
		_ => Cycle::HandlerLag,
	}
}

fn mode_of(c: Cycle) -> &'static str {
	match c {
		Cycle::SubUnsubscribe | Cycle::SubDrop => "ok",
		Cycle::SubServerClose => "close",
		Cycle::SubLagThenDrop | Cycle::SubLagThenUnsubscribe => "flood",
		Cycle::SubRefused => "refuse",
		Cycle::SubMalformed => "malformed",
		Cycle::SubDuplicateId => "dup",
		_ => "ok",
	}
}

pub async fn scenario() {
	let n_tasks = rt::draw_range("n_tasks", 1, 3);
	let buf = *rt::pick("buf", &[2usize, 1, 4]);
	let id_str = rt::chance("id_kind", 1, 3);
	let max_conc = *rt::pick("max_conc", &[256usize, 1, 2]);
	let repeat = if rt::param("long").is_some() { 40 } else { 1 };
	let mut plans: Vec<Vec<Cycle>> = Vec::new();
	for _ in 0..n_tasks {
		let k = rt::draw_range("n_cycles", 1, 8);
		let base: Vec<Cycle> = (0..k).map(|_| draw_cycle()).collect();
		let mut v = Vec::new();
		for _ in 0..repeat {
			v.extend(base.iter().copied());
		}
		plans.push(v);
	}
	rt::event("plan", format!("tasks={plans:?} buf={buf} id_str={id_str} max_conc={max_conc}"));
	let (wire, tx, rx) = Wire::new();
	let client = Arc::new(
		Client::builder()
			.max_buffer_capacity_per_subscription(buf)
			.max_concurrent_requests(max_conc)
			.id_format(if id_str { IdKind::String } else { IdKind::Number })
			.request_timeout(Duration::from_secs(60))
			.build_with_tokio(tx, rx),
	);
	let finished_ids: Arc<Mutex<(Vec<Value>, Vec<Value>)>> = Arc::default(); // (request ids answered, sub ids ended)
	let all_sub_ids: Arc<Mutex<Vec<(Value, u64)>>> = Arc::default(); // (subscription id, nonce of the subscribe call)
	// subscribe calls whose future was dropped before it completed
	let cancelled_subs: Arc<Mutex<Vec<u64>>> = Arc::default();

	// ---------------- peer: acknowledges everything ----------------
	let peer = {
		let (wire, finished_ids, all_sub_ids) = (wire.clone(), finished_ids.clone(), all_sub_ids.clone());
		rt::spawn("peer", async move {
			let mut pending: Vec<(Value, String, Value)> = Vec::new();
			let mut next_sub = 800u64;
			let mut live: Vec<Value> = Vec::new();
			let mut val = 50_000u64;
			let take = |text: &str, pending: &mut Vec<(Value, String, Value)>| match parse_out(text) {
				Parsed::Call { id, method, params } => pending.push((id, method, params)),
				Parsed::Batch(es) => {
					let ids: Vec<Value> = es.iter().filter_map(|e| if let Parsed::Call { id, .. } = e { Some(id.clone()) } else { None }).collect();
					pending.push((json!(ids), "__batch".into(), Value::Null));
				}
				_ => {}
			};
			loop {
				while let Some(m) = wire.try_next_out() {
					take(&m.text, &mut pending);
				}
				if pending.is_empty() {
					match wire.next_out().await {
						Some(m) => take(&m.text, &mut pending),
						None => break,
					}
					continue;
				}
				match rt::draw("peer-act", 6) {
					0 => tokio::time::sleep(Duration::from_millis(rt::draw_range("lat", 1, 20) as u64)).await,
					1 => rt::yield_n(1).await,
					_ => {
						let k = rt::draw("which", pending.len() as u32) as usize;
						let (id, method, params) = pending.remove(k);
						val += 1;
						match method.as_str() {
							"__batch" => {
								let ids = id.as_array().cloned().unwrap_or_default();
								let parts: Vec<String> = ids.iter().rev().map(|i| ok_response(i, &json!(val))).collect();
								wire.push_text(format!("[{}]", parts.join(",")));
								finished_ids.lock().unwrap().0.extend(ids);
							}
							"sub" => {
								let mode = params.as_array().and_then(|a| a.get(1)).and_then(|m| m.as_str()).unwrap_or("ok").to_string();
								match mode.as_str() {
									"refuse" => {
										wire.push_text(err_response(&id, -32000, "refused", None));
									}
									"malformed" => {
										wire.push_text(ok_response(&id, &json!({"not": "an id"})));
									}
									"dup" if !live.is_empty() => {
										let sid = live[0].clone();
										wire.push_text(ok_response(&id, &sid));
									}
									_ => {
										next_sub += 1;
										let sid = if next_sub % 2 == 0 { json!(next_sub) } else { json!(format!("s{next_sub}")) };
										live.push(sid.clone());
										all_sub_ids.lock().unwrap().push((sid.clone(), params.as_array().and_then(|a| a.first()).and_then(|v| v.as_u64()).unwrap_or(0)));
										wire.push_text(ok_response(&id, &sid));
										match mode.as_str() {
											// the caller may have given up: the server stays quiet on this one
											"quiet" => {}
											"close" => {
												for _ in 0..rt::draw("items", 3) {
													val += 1;
													wire.push_text(sub_notif("n", &sid, &json!(val)));
												}
												// the reason of a close notification is any JSON value
												let reason = rt::pick("close_reason", &[json!("bye"), json!("say \"bye\" \\ and\nleave"), json!({"code": 1, "why": ["x"]}), json!(42), Value::Null]).clone();
												wire.push_text(sub_close("n", &sid, &reason));
												live.retain(|s| s != &sid);
												finished_ids.lock().unwrap().1.push(sid);
											}
											"flood" => {
												for _ in 0..6 {
													val += 1;
													wire.push_text(sub_notif("n", &sid, &json!(val)));
												}
											}
											_ => {
												for _ in 0..rt::draw("items", 3) {
													val += 1;
													wire.push_text(sub_notif("n", &sid, &json!(val)));
												}
											}
										}
									}
								}
								finished_ids.lock().unwrap().0.push(id);
							}
							"unsub" => {
								if let Some(sid) = params.as_array().and_then(|a| a.first()) {
									live.retain(|s| s != sid);
									finished_ids.lock().unwrap().1.push(sid.clone());
								}
								wire.push_text(ok_response(&id, &json!(true)));
								finished_ids.lock().unwrap().0.push(id);
							}
							"mflood" => {
								wire.push_text(ok_response(&id, &json!(1)));
								for _ in 0..6 {
									val += 1;
									wire.push_text(method_notif("mn", Some(&json!(val))));
								}
								finished_ids.lock().unwrap().0.push(id);
							}
							"nullid" => {
								wire.push_text(err_response(&Value::Null, -32007, "request too big", None));
								finished_ids.lock().unwrap().0.push(id);
							}
							"fail" => {
								wire.push_text(err_response(&id, -32001, "nope", Some(&json!([1, 2]))));
								finished_ids.lock().unwrap().0.push(id);
							}
							_ => {
								wire.push_text(ok_response(&id, &json!(val)));
								finished_ids.lock().unwrap().0.push(id);
							}
						}
					}
				}
			}
		})
	};

	// ---------------- front-ends ----------------
	let nonce = Arc::new(AtomicU64::new(1));
	let handler_lock = Arc::new(tokio::sync::Mutex::new(()));
	let mut hs = Vec::new();
	for (ti, plan) in plans.into_iter().enumerate() {
		let (client, nonce, handler_lock, cancelled_subs) = (client.clone(), nonce.clone(), handler_lock.clone(), cancelled_subs.clone());
		hs.push(rt::spawn("front", async move {
			for c in plan {
				let n = nonce.fetch_add(1, Ordering::Relaxed);
				rt::event("cycle", format!("t{ti} {c:?} nonce={n}"));
				match c {
					Cycle::Call => {
						let _: Result<Value, Error> = client.request("m", rpc_params![n]).await;
					}
					Cycle::CallErr => {
						let _: Result<Value, Error> = client.request("fail", rpc_params![n]).await;
					}
					Cycle::Batch(k) => {
						let mut b = BatchRequestBuilder::new();
						for j in 0..k {
							b.insert("m", rpc_params![n * 100 + j as u64]).unwrap();
						}
						let _: Result<BatchResponse<Value>, Error> = client.batch_request(b).await;
					}
					Cycle::Notif => {
						let _ = client.notification("note", rpc_params![n]).await;
					}
					Cycle::CallNullIdAnswer => {
						let _: Result<Value, Error> = client.request("nullid", rpc_params![n]).await;
					}
					Cycle::HandlerCancelled(k) => {
						let _g = handler_lock.lock().await;
						{
							// (the abandoned future is dropped at once, at the end of this block - a future that is kept around
							// unpolled would hold the reply channel open and look like a caller who is still waiting)
							let fut = client.subscribe_to_method::<Value>("mn");
							tokio::pin!(fut);
							tokio::select! {
								biased;
								r = &mut fut => { drop(r); }
								_ = rt::yield_n(k) => { rt::probe("handler_cancelled"); }
							}
						}
						tokio::time::sleep(Duration::from_millis(50)).await;
					}
					Cycle::SubCancelled(k) => {
						let fut = client.subscribe::<Value, _>("sub", rpc_params![n, if rt::chance("quiet", 1, 2) { "quiet" } else { "ok" }], "unsub");
						tokio::pin!(fut);
						tokio::select! {
							biased;
							r = &mut fut => { drop(r); }
							_ = rt::yield_n(k) => {
								rt::probe("subscribe_cancelled");
								cancelled_subs.lock().unwrap().push(n);
							}
						}
					}
					Cycle::SubUnsubscribe | Cycle::SubDrop | Cycle::SubServerClose | Cycle::SubLagThenDrop | Cycle::SubLagThenUnsubscribe | Cycle::SubRefused | Cycle::SubMalformed | Cycle::SubDuplicateId => {
						let r: Result<Subscription<Value>, Error> = client.subscribe("sub", rpc_params![n, mode_of(c)], "unsub").await;
						match r {
							Ok(mut sub) => match c {
								Cycle::SubUnsubscribe => {
									if rt::chance("read1", 1, 2) {
										let _ = tokio::time::timeout(Duration::from_millis(50), sub.next()).await;
									}
									let _ = sub.unsubscribe().await;
								}
								Cycle::SubDrop | Cycle::SubDuplicateId => {
									if rt::chance("read1", 1, 2) {
										let _ = tokio::time::timeout(Duration::from_millis(50), sub.next()).await;
									}
									drop(sub);
								}
								Cycle::SubServerClose => {
									// read until the server's close notification ends the stream (bounded)
									let _ = tokio::time::timeout(Duration::from_secs(5), async { while sub.next().await.is_some() {} }).await;
									drop(sub);
								}
								Cycle::SubLagThenDrop | Cycle::SubLagThenUnsubscribe => {
									// do not read while the peer floods
									tokio::time::sleep(Duration::from_millis(200)).await;
									if c == Cycle::SubLagThenUnsubscribe {
										let _ = sub.unsubscribe().await;
									} else {
										let _ = tokio::time::timeout(Duration::from_secs(5), async { while sub.next().await.is_some() {} }).await;
										drop(sub);
									}
								}
								_ => drop(sub),
							},
							Err(e) => {
								rt::event("subscribe-err", format!("{e:?}"));
							}
						}
					}
					Cycle::HandlerDrop | Cycle::HandlerUnsubscribe | Cycle::HandlerLag | Cycle::HandlerTwice => {
						// one handler for "mn" at a time
						let _g = handler_lock.lock().await;
						let r: Result<Subscription<Value>, Error> = client.subscribe_to_method("mn").await;
						if let Ok(mut h) = r {
							match c {
								Cycle::HandlerDrop => drop(h),
								Cycle::HandlerUnsubscribe => {
									let _ = h.unsubscribe().await;
								}
								Cycle::HandlerTwice => {
									let second: Result<Subscription<Value>, Error> = client.subscribe_to_method("mn").await;
									if second.is_ok() {
										rt::violate(P, "handler-registered-twice", "mn", "subscribe_to_method succeeded twice for the same method while the first handler was alive");
									}
									drop(h);
								}
								_ => {
									let _: Result<Value, Error> = client.request("mflood", rpc_params![n]).await;
									tokio::time::sleep(Duration::from_millis(100)).await;
									let _ = tokio::time::timeout(Duration::from_secs(5), async { while h.next().await.is_some() {} }).await;
									drop(h);
								}
							}
							// let the unregistration reach the background task before another handler is registered
							tokio::time::sleep(Duration::from_millis(50)).await;
						}
					}
				}
			}
		}));
	}
	for h in hs {
		let _ = h.await;
	}
	// every acknowledgement has been delivered and processed by now?
	rt::quiesce().await;
	// one more notification for every subscription the server ever accepted and for the handler method: whatever
	// the application dropped without the background task noticing (request queue full, cancelled future) is
	// noticed now, and the resulting unsubscribe calls are acknowledged
	if client.is_connected() {
		// (a subscribe call that was given up needs no such reminder: the background task itself sees the late answer
		// and has to unsubscribe - unless the request queue can be full, in which case the handle that was already on
		// its way to the caller may have been dropped unnoticed)
		let ids = all_sub_ids.lock().unwrap().clone();
		let cancelled = cancelled_subs.lock().unwrap().clone();
		for (sid, sub_nonce) in ids {
			if max_conc == 256 && cancelled.contains(&sub_nonce) {
				rt::probe("no_reminder_for_cancelled_subscribe");
				continue;
			}
			wire.push_text(sub_notif("n", &sid, &json!(7)));
		}
		// (with a request queue that cannot be full, nothing the application drops goes unnoticed: no reminder for the
		// handler method either)
		if max_conc != 256 {
			wire.push_text(method_notif("mn", Some(&json!(7))));
		} else {
			rt::probe("no_reminder_for_the_handler_method");
		}
		rt::quiesce().await;
	}
	let connected = client.is_connected();
	let tables = verif::client_tables();
	rt::event("tables", format!("{tables:?} connected={connected}"));
	let names = ["requests", "subscriptions", "batches", "notification_handlers"];
	if connected {
		match tables.first() {
			Some(Some(t)) => {
				for (i, n) in t.iter().enumerate() {
					if *n != 0 {
						rt::violate(P, "residue", names[i].to_string(), format!("all work is finished and acknowledged, but the client's `{}` table still holds {} entr{} (tables {:?})", names[i], n, if *n == 1 { "y" } else { "ies" }, t));
					}
				}
				rt::probe("nontrivial");
			}
			other => {
				rt::event("tables-unavailable", format!("{other:?}"));
			}
		}
		// a later message bearing an identifier of finished work completes nothing
		let (req_ids, sub_ids) = finished_ids.lock().unwrap().clone();
		if let Some(id) = req_ids.last() {
			if rt::chance("late_msg", 1, 2) {
				match sub_ids.last() {
					Some(sid) if rt::chance("late_sub", 1, 2) => {
						wire.push_text(sub_notif("n", sid, &json!(1)));
					}
					_ => {
						wire.push_text(ok_response(id, &json!(123456)));
					}
				}
				rt::quiesce().await;
				if let Some(Some(t)) = verif::client_tables().first() {
					if t.iter().any(|n| *n != 0) {
						rt::violate(P, "late-message-created-state", "tables", format!("a message bearing an identifier of finished work left state behind: {t:?}"));
					}
				}
				rt::probe("late_message");
			}
		}
	} else {
		rt::probe("disconnected_before_check");
	}
	drop(client);
	let _ = tokio::time::timeout(Duration::from_secs(5), peer).await;
}

//! clisim — the real async `Client` over a simulated message transport and a scripted peer.

pub mod batch;
pub mod calls;
pub mod faults;
pub mod leak;
pub mod subs;

use std::collections::VecDeque;
use std::future::Future;
use std::pin::Pin;
use std::sync::{Arc, Mutex};
use std::task::{Context, Poll, Waker};

use jsonrpsee_core::client::{ReceivedMessage, TransportReceiverT, TransportSenderT};
use serde_json::Value;

use crate::rt;

#[derive(Debug, thiserror::Error)]
#[error("{0}")]
pub struct TErr(pub String);

#[derive(Debug, Clone)]
pub struct OutMsg {
	pub stamp: u64,
	pub text: String,
}

#[derive(Debug, Clone)]
pub enum InItem {
	Text(String),
	Bytes(Vec<u8>),
	/// `receive()` fails with this error text.
	Err(String),
	/// a WebSocket pong
	Pong,
}

#[derive(Default)]
pub struct WireState {
	/// Everything the client handed to the transport sender, in order.
	pub out_log: Vec<OutMsg>,
	out_cursor: usize,
	peer_waker: Option<Waker>,
	inbox: VecDeque<(u64, InItem)>,
	rx_waker: Option<Waker>,
	/// (push seq, stamp of the poll in which `receive()` returned it, item)
	pub delivered: Vec<(u64, u64, InItem)>,
	pub pushed: u64,
	// faults
	/// 0-based index of the `send` that fails (and all later ones).
	pub fail_send_at: Option<usize>,
	pub fail_close: bool,
	pub send_count: usize,
	pub send_failed_stamp: Option<u64>,
	pub close_called_stamp: Option<u64>,
	pub tx_dropped_stamp: Option<u64>,
	pub rx_dropped_stamp: Option<u64>,
	pub max_send_yield: u32,
	/// 0 = `close()` returns after a few yields, 1 = takes 3 s of virtual time, 2 = never returns
	pub close_mode: u32,
	// single planned fault, fired at the `fault_at`-th seam event (tx / peer-push / rx-deliver)
	pub seam_count: u64,
	pub fault_at: Option<u64>,
	pub fault: Option<Fault>,
	pub fault_fired_stamp: Option<u64>,
	pub fault_fired_vtime: Option<tokio::time::Instant>,
	/// A broken connection is broken both ways: once a `send` has failed, nothing the peer pushes arrives any more.
	pub silent_after_send_fail: bool,
	/// `receive()` may deliver a message in two pieces (not cancel-safe in between)
	pub rx_split: bool,
	pub pings_sent: u64,
	pub peer_silent: bool,
	/// 0-based index of the `send` that never completes (and all later ones).
	pub hang_send_at: Option<usize>,
	/// delivered to `receive()` as soon as a send hangs
	pub after_hang: Option<InItem>,
	/// every `send` takes this many virtual milliseconds (0 = only scheduling points)
	pub send_ms: u64,
}

#[derive(Debug, Clone)]
pub enum Fault {
	/// The next `send` (and all later ones) fails.
	SendError,
	/// This item is put in front of / behind whatever is queued for `receive()`.
	Recv { item: InItem, front: bool },
	/// The peer goes silent: sends keep succeeding, nothing (not even a pong) arrives any more.
	Silence,
	/// The peer stops reading: the next `send` (and all later ones) never completes.
	SendHang,
	/// Two things go wrong at once: the next `send` never completes, and while it hangs the receiving side comes up
	/// with this item (an error, or something that makes the client give the connection up).
	SendHangThenRecv(InItem),
}

impl WireState {
	/// Count one seam event; fire the planned fault when its position is reached.
	fn seam_tick(&mut self) {
		self.seam_count += 1;
		if self.fault_at == Some(self.seam_count) {
			if let Some(f) = self.fault.take() {
				let st = rt::event("fault-fired", format!("at seam event {} {:?}", self.seam_count, f));
				self.fault_fired_stamp = Some(st);
				self.fault_fired_vtime = Some(tokio::time::Instant::now());
				match f {
					Fault::SendError => {
						self.fail_send_at = Some(self.send_count);
					}
					Fault::SendHang => {
						self.hang_send_at = Some(self.send_count);
					}
					Fault::SendHangThenRecv(item) => {
						self.hang_send_at = Some(self.send_count);
						self.after_hang = Some(item);
					}
					Fault::Silence => {
						rt::probe("fault.peer_silent");
						self.peer_silent = true;
					}
					Fault::Recv { item, front } => {
						self.pushed += 1;
						let seq = self.pushed;
						if front {
							self.inbox.push_front((seq, item));
						} else {
							self.inbox.push_back((seq, item));
						}
						if let Some(wk) = self.rx_waker.take() {
							wk.wake();
						}
					}
				}
			}
		}
	}
}

#[derive(Clone, Default)]
pub struct Wire(pub Arc<Mutex<WireState>>);

pub struct Tx(Wire);
pub struct Rx(Wire);

impl Wire {
	pub fn new() -> (Wire, Tx, Rx) {
		let w = Wire::default();
		w.0.lock().unwrap().max_send_yield = 2;
		w.0.lock().unwrap().rx_split = true;
		(w.clone(), Tx(w.clone()), Rx(w))
	}

	pub fn lock(&self) -> std::sync::MutexGuard<'_, WireState> {
		self.0.lock().unwrap()
	}

	/// Peer side: next message the client sent, if any.
	pub fn try_next_out(&self) -> Option<OutMsg> {
		let mut w = self.lock();
		if w.out_cursor < w.out_log.len() {
			w.out_cursor += 1;
			Some(w.out_log[w.out_cursor - 1].clone())
		} else {
			None
		}
	}

	/// Peer side: wait for the next message from the client. Returns `None` when the sender is gone.
	pub fn next_out(&self) -> NextOut {
		NextOut(self.clone())
	}

	/// Peer side: make an item available to `receive()`. Returns the push sequence number.
	pub fn push(&self, item: InItem) -> u64 {
		let mut w = self.lock();
		w.pushed += 1;
		let seq = w.pushed;
		let d = match &item {
			InItem::Pong => format!("#{seq} PONG"),
			InItem::Text(t) => format!("#{seq} {t}"),
			InItem::Bytes(b) => format!("#{seq} bytes {}", String::from_utf8_lossy(b)),
			InItem::Err(e) => format!("#{seq} ERR {e}"),
		};
		if (w.silent_after_send_fail && w.send_failed_stamp.is_some()) || w.peer_silent {
			rt::event("peer-push-lost", d);
			rt::probe("fault.silent_after_send_error");
			w.seam_tick();
			return seq;
		}
		rt::event("peer-push", d);
		w.inbox.push_back((seq, item));
		if let Some(wk) = w.rx_waker.take() {
			wk.wake();
		}
		w.seam_tick();
		seq
	}

	pub fn push_text(&self, s: impl Into<String>) -> u64 {
		self.push(InItem::Text(s.into()))
	}

	/// Stamp at which push `seq` was handed to the client (None = not yet).
	pub fn delivered_stamp(&self, seq: u64) -> Option<u64> {
		self.lock().delivered.iter().find(|d| d.0 == seq).map(|d| d.1)
	}

	pub fn inbox_len(&self) -> usize {
		self.lock().inbox.len()
	}
}

pub struct NextOut(Wire);
impl Future for NextOut {
	type Output = Option<OutMsg>;
	fn poll(self: Pin<&mut Self>, cx: &mut Context<'_>) -> Poll<Self::Output> {
		let mut w = self.0.lock();
		if w.out_cursor < w.out_log.len() {
			w.out_cursor += 1;
			Poll::Ready(Some(w.out_log[w.out_cursor - 1].clone()))
		} else if w.tx_dropped_stamp.is_some() {
			Poll::Ready(None)
		} else {
			w.peer_waker = Some(cx.waker().clone());
			Poll::Pending
		}
	}
}

impl TransportSenderT for Tx {
	type Error = TErr;

	fn send(&mut self, msg: String) -> impl Future<Output = Result<(), TErr>> + Send {
		let wire = self.0.clone();
		async move {
			let my = wire.lock().max_send_yield;
			if my > 0 {
				rt::yield_n(rt::draw("tx-yield", my + 1)).await;
			}
			let hangs = {
				let w = wire.lock();
				w.hang_send_at.is_some_and(|k| w.send_count >= k)
			};
			if hangs {
				rt::event("fault-send-hangs", "");
				rt::probe("fault.send_hangs");
				let second = wire.lock().after_hang.take();
				if let Some(item) = second {
					rt::probe("fault.receive_side_fails_while_send_hangs");
					wire.push(item);
				}
				std::future::pending::<()>().await;
			}
			let send_ms = wire.lock().send_ms;
			if send_ms > 0 {
				tokio::time::sleep(std::time::Duration::from_millis(send_ms)).await;
			}
			{
			let mut w = wire.lock();
			let idx = w.send_count;
			w.send_count += 1;
			if w.fail_send_at.is_some_and(|k| idx >= k) {
				let st = rt::event("fault-send-error", format!("send #{idx}"));
				rt::probe("fault.send_error");
				w.send_failed_stamp.get_or_insert(st);
				return Err(TErr(format!("injected send error at send #{}", w.fail_send_at.unwrap())));
			}
			let stamp = rt::event("tx", &msg);
			w.out_log.push(OutMsg { stamp, text: msg });
			if let Some(wk) = w.peer_waker.take() {
				wk.wake();
			}
			w.seam_tick();
			}
			// the bytes are out, but the flush may still return Pending a few times
			if my > 0 {
				rt::yield_n(rt::draw("tx-flush-yield", my + 1)).await;
			}
			Ok(())
		}
	}

	fn send_ping(&mut self) -> impl Future<Output = Result<(), TErr>> + Send {
		let wire = self.0.clone();
		async move {
			rt::yield_n(rt::draw("ping-yield", 2)).await;
			let mut w = wire.lock();
			if w.fail_send_at.is_some_and(|k| w.send_count >= k) {
				rt::event("fault-ping-error", "");
				return Err(TErr("injected send error (ping)".into()));
			}
			w.pings_sent += 1;
			rt::event("tx-ping", "");
			rt::probe("client_ping_sent");
			drop(w);
			// the peer answers every ping it sees
			wire.push(InItem::Pong);
			Ok(())
		}
	}

	fn close(&mut self) -> impl Future<Output = Result<(), TErr>> + Send {
		let wire = self.0.clone();
		async move {
			rt::yield_n(rt::draw("close-yield", 3)).await;
			let mode = wire.lock().close_mode;
			if mode > 0 {
				let st = rt::event("tx-close-begin", format!("mode={mode}"));
				wire.lock().close_called_stamp.get_or_insert(st);
				rt::probe(if mode == 1 { "fault.slow_close" } else { "fault.hanging_close" });
				if mode == 1 {
					tokio::time::sleep(std::time::Duration::from_secs(3)).await;
				} else {
					std::future::pending::<()>().await;
				}
			}
			let mut w = wire.lock();
			let st = rt::event("tx-close", "");
			w.close_called_stamp.get_or_insert(st);
			if w.fail_close {
				rt::probe("fault.close_error");
				Err(TErr("injected close error".into()))
			} else {
				Ok(())
			}
		}
	}
}

impl Drop for Tx {
	fn drop(&mut self) {
		let mut w = self.0.lock();
		let st = rt::event("tx-dropped", "");
		w.tx_dropped_stamp = Some(st);
		if let Some(wk) = w.peer_waker.take() {
			wk.wake();
		}
	}
}

impl Drop for Rx {
	fn drop(&mut self) {
		let mut w = self.0.lock();
		let st = rt::event("rx-dropped", "");
		w.rx_dropped_stamp = Some(st);
	}
}

/// `receive()` is not cancel-safe, like a real WebSocket receive: a message may arrive in two pieces (a few polls
/// or a few virtual milliseconds apart), and a future dropped in between takes the first piece with it.
struct Recv {
	wire: Wire,
	held: Option<(u64, InItem)>,
	yields_left: u32,
	gap: Option<Pin<Box<tokio::time::Sleep>>>,
}
impl Future for Recv {
	type Output = Result<ReceivedMessage, TErr>;
	fn poll(mut self: Pin<&mut Self>, cx: &mut Context<'_>) -> Poll<Self::Output> {
		let this = &mut *self;
		if this.held.is_none() {
			let mut w = this.wire.lock();
			match w.inbox.pop_front() {
				Some(x) => {
					let split = w.rx_split;
					drop(w);
					this.held = Some(x);
					if split {
						match rt::draw("rx-split", 6) {
							0..=3 => {}
							4 => this.yields_left = rt::draw_range("rx-split-yields", 1, 2),
							_ => {
								let ms = rt::draw_range("rx-split-ms", 1, 15) as u64;
								this.gap = Some(Box::pin(tokio::time::sleep(std::time::Duration::from_millis(ms))));
							}
						}
						if this.yields_left > 0 || this.gap.is_some() {
							rt::probe("rx_split");
						}
					}
				}
				None => {
					w.rx_waker = Some(cx.waker().clone());
					return Poll::Pending;
				}
			}
		}
		if this.yields_left > 0 {
			this.yields_left -= 1;
			cx.waker().wake_by_ref();
			return Poll::Pending;
		}
		if let Some(g) = this.gap.as_mut() {
			if g.as_mut().poll(cx).is_pending() {
				return Poll::Pending;
			}
			this.gap = None;
		}
		let (seq, item) = this.held.take().unwrap();
		let mut w = this.wire.lock();
		let st = rt::event("rx-deliver", format!("#{seq}"));
		w.delivered.push((seq, st, item.clone()));
		w.seam_tick();
		Poll::Ready(match item {
			InItem::Text(t) => Ok(ReceivedMessage::Text(t)),
			InItem::Bytes(b) => Ok(ReceivedMessage::Bytes(b)),
			InItem::Pong => Ok(ReceivedMessage::Pong),
			InItem::Err(e) => {
				rt::probe("fault.recv_error");
				Err(TErr(e))
			}
		})
	}
}

impl Drop for Recv {
	fn drop(&mut self) {
		if let Some((seq, _)) = self.held.take() {
			rt::event("rx-cancelled-mid-message", format!("#{seq} is lost with the dropped receive future"));
			rt::probe("rx_cancelled_mid_message");
		}
	}
}

impl TransportReceiverT for Rx {
	type Error = TErr;

	fn receive(&mut self) -> impl Future<Output = Result<ReceivedMessage, TErr>> + Send {
		Recv { wire: self.0.clone(), held: None, yields_left: 0, gap: None }
	}
}

// ------------------------------------------------------------------------------------------------
// what the client put on the wire, parsed

#[derive(Debug, Clone)]
pub enum Parsed {
	Call { id: Value, method: String, params: Value },
	Notif { method: String, params: Value },
	Batch(Vec<Parsed>),
	Other(String),
}

pub fn parse_out(text: &str) -> Parsed {
	fn one(v: &Value) -> Parsed {
		match v {
			Value::Object(o) => {
				let method = o.get("method").and_then(|m| m.as_str()).unwrap_or("").to_string();
				let params = o.get("params").cloned().unwrap_or(Value::Null);
				match o.get("id") {
					Some(id) => Parsed::Call { id: id.clone(), method, params },
					None => Parsed::Notif { method, params },
				}
			}
			other => Parsed::Other(other.to_string()),
		}
	}
	match serde_json::from_str::<Value>(text) {
		Ok(Value::Array(a)) => Parsed::Batch(a.iter().map(one).collect()),
		Ok(v) => one(&v),
		Err(_) => Parsed::Other(text.to_string()),
	}
}

/// Nonce carried as first positional param (harness convention).
pub fn nonce_of(params: &Value) -> Option<u64> {
	params.as_array().and_then(|a| a.first()).and_then(|v| v.as_u64())
}

pub fn ok_response(id: &Value, result: &Value) -> String {
	format!(r#"{{"jsonrpc":"2.0","id":{id},"result":{result}}}"#)
}

pub fn err_response(id: &Value, code: i64, msg: &str, data: Option<&Value>) -> String {
	match data {
		Some(d) => format!(r#"{{"jsonrpc":"2.0","id":{id},"error":{{"code":{code},"message":"{msg}","data":{d}}}}}"#),
		None => format!(r#"{{"jsonrpc":"2.0","id":{id},"error":{{"code":{code},"message":"{msg}"}}}}"#),
	}
}

pub fn sub_notif(method: &str, sub_id: &Value, result: &Value) -> String {
	format!(r#"{{"jsonrpc":"2.0","method":"{method}","params":{{"subscription":{sub_id},"result":{result}}}}}"#)
}

pub fn sub_close(method: &str, sub_id: &Value, error: &Value) -> String {
	format!(r#"{{"jsonrpc":"2.0","method":"{method}","params":{{"subscription":{sub_id},"error":{error}}}}}"#)
}

pub fn method_notif(method: &str, params: Option<&Value>) -> String {
	match params {
		Some(p) => format!(r#"{{"jsonrpc":"2.0","method":"{method}","params":{p}}}"#),
		None => format!(r#"{{"jsonrpc":"2.0","method":"{method}"}}"#),
	}
}

/// Render a client error compactly and stably for logs/oracles.
pub fn err_str(e: &jsonrpsee_core::client::Error) -> String {
	format!("{e:?}")
}

/// Drawn client ping configuration: `None` most of the time; otherwise short periods on the virtual clock with a
/// failure budget that is never used up, so that the ticks only perturb the background tasks' select loops.
/// Returns the request timeout to use with it (the caller's choice: shorter than the usual 60 s so that a stalled
/// call costs few ticks, longer than anything the scenario's peer may legitimately take).
pub fn draw_ping(timeout_with_pings_s: u64) -> (Option<jsonrpsee_core::client::async_client::PingConfig>, std::time::Duration) {
	use std::time::Duration;
	if !rt::chance("client_pings", 1, 5) {
		return (None, Duration::from_secs(60));
	}
	rt::probe("client_pings_enabled");
	let ping = *rt::pick("ping_interval_ms", &[7u64, 40, 3000]);
	let inactive = *rt::pick("inactive_limit_ms", &[5u64, 30, 2000]);
	let cfg = jsonrpsee_core::client::async_client::PingConfig::new()
		.ping_interval(Duration::from_millis(ping))
		.inactive_limit(Duration::from_millis(inactive))
		.max_failures(usize::MAX);
	(Some(cfg), Duration::from_secs(timeout_with_pings_s))
}

pub const PLACEHOLDER: &str = "Error reason could not be found";

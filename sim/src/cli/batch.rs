//! C12 — batch results are positional: entry i is the outcome of request i.
//!
//! Two scenarios with one oracle: the WebSocket-style async client over the simulated transport, and the
//! `HttpClient` whose tower backend is a harness layer. The peer replies to every batch with a drawn
//! permutation / subset / duplication / foreign id / mixture of two batches.

use std::collections::BTreeMap;
use std::future::Future;
use std::pin::Pin;
use std::sync::atomic::{AtomicU64, Ordering};
use std::sync::{Arc, Mutex};
use std::task::{Context, Poll};
use std::time::Duration;

use jsonrpsee_core::client::{BatchResponse, Client, ClientT, Error, IdKind};
use jsonrpsee_core::params::BatchRequestBuilder;
use jsonrpsee_core::rpc_params;
use serde_json::{Value, json};

use super::calls::{Ans, ans_to_text};
use super::{Parsed, Wire, nonce_of, parse_out};
use crate::rt;

const P: &str = "C12";

/// One element the peer put into some reply.
#[derive(Debug, Clone)]
pub struct Sent {
	pub id: String,
	pub ans: Ans,
	/// delivery handle: push sequence (ws) or request sequence (http)
	pub seq: u64,
	/// ws: nonce of the request entry the peer meant this element for (None: foreign id, or http where one reply
	/// belongs to one request anyway). Ids alone do not tell requests apart if the client ever reuses one.
	pub for_nonce: Option<u64>,
}

#[derive(Debug, Clone)]
pub struct BatchRec {
	pub nonces: Vec<u64>,
	pub done_stamp: u64,
	/// Ok((entries, successful_calls, failed_calls))
	pub result: Result<(Vec<Ans>, usize, usize), String>,
}

#[derive(Debug, Clone, Copy, PartialEq)]
pub enum Mode {
	Full,
	Subset,
	Dup,
	Foreign,
	Mix,
}

fn fresh_ans(ctr: &mut u64) -> Ans {
	*ctr += 1;
	if rt::chance("err", 1, 4) {
		Ans::Err(-32000 - (*ctr % 90) as i64, format!("e{ctr}"), if *ctr % 2 == 0 { Some(json!({"n": *ctr})) } else { None })
	} else {
		Ans::Ok(json!(*ctr))
	}
}

/// Build the reply elements for one batch (ids in request order) under `mode`.
fn build_reply(ids: &[Value], mode: Mode, ctr: &mut u64, id_str: bool) -> Vec<(Value, Ans)> {
	let mut els: Vec<(Value, Ans)> = ids.iter().map(|i| (i.clone(), fresh_ans(ctr))).collect();
	match mode {
		Mode::Full | Mode::Mix => {}
		Mode::Subset => {
			// omit 1..n-1 elements (drawn positions; first and last are the interesting ones)
			let omit = rt::draw_range("omit_n", 1, (els.len() as u32).saturating_sub(1).max(1));
			for _ in 0..omit {
				if els.len() > 1 {
					let which = match rt::draw("omit_which", 3) {
						0 => 0,
						1 => els.len() - 1,
						_ => rt::draw("omit_pos", els.len() as u32) as usize,
					};
					els.remove(which);
				}
			}
		}
		Mode::Dup => {
			let k = rt::draw("dup_pos", els.len() as u32) as usize;
			let extra = (els[k].0.clone(), fresh_ans(ctr));
			if els.len() > 1 && rt::chance("dup_replaces", 1, 2) {
				// the duplicate takes the place of another element (so the length still matches)
				let j = (k + 1 + rt::draw("dup_victim", els.len() as u32 - 1) as usize) % els.len();
				els[j] = extra;
			} else {
				els.push(extra);
			}
		}
		Mode::Foreign => {
			let foreign = match rt::draw("foreign_kind", 4) {
				3 => {
					// an id of the other JSON type with the same digits as an id of this batch ("3" for 3, 3 for "3"): not the
					// id any request put on the wire
					rt::probe("foreign_id_of_the_other_json_type");
					let victim = rt::pick("type_confused", ids).clone();
					match &victim {
						Value::String(s) => s.parse::<u64>().map(|n| json!(n)).unwrap_or(json!(88887)),
						Value::Number(n) => json!(n.to_string()),
						_ => json!(88887),
					}
				}
				0 => {
					if id_str {
						json!("88888")
					} else {
						json!(88888)
					}
				}
				1 => {
					// just outside the range
					let last = ids.last().and_then(|v| v.as_u64().or_else(|| v.as_str().and_then(|s| s.parse().ok()))).unwrap_or(0);
					if id_str { json!((last + 1).to_string()) } else { json!(last + 1) }
				}
				_ => {
					let first = ids.first().and_then(|v| v.as_u64().or_else(|| v.as_str().and_then(|s| s.parse().ok()))).unwrap_or(0);
					if first == 0 {
						json!(77)
					} else if id_str {
						json!((first - 1).to_string())
					} else {
						json!(first - 1)
					}
				}
			};
			let a = fresh_ans(ctr);
			if rt::chance("foreign_replaces", 1, 2) {
				let k = rt::draw("foreign_pos", els.len() as u32) as usize;
				els[k] = (foreign, a);
			} else {
				els.push((foreign, a));
			}
		}
	}
	// permute
	let mut out = Vec::new();
	while !els.is_empty() {
		let j = rt::draw("perm", els.len() as u32) as usize;
		out.push(els.remove(j));
	}
	out
}

fn draw_mode(allow_mix: bool) -> Mode {
	match rt::draw("mode", 8) {
		0..=2 => Mode::Full,
		3 => Mode::Subset,
		4 => Mode::Dup,
		5 => Mode::Foreign,
		6 if allow_mix => Mode::Mix,
		_ => Mode::Subset,
	}
}

fn batch_result<'a>(r: Result<BatchResponse<'a, Value>, Error>) -> Result<(Vec<Ans>, usize, usize), String> {
	match r {
		Ok(br) => {
			let (s, f) = (br.num_successful_calls(), br.num_failed_calls());
			Ok((
				br.into_iter()
					.map(|e| match e {
						Ok(v) => Ans::Ok(v),
						Err(o) => Ans::Err(o.code() as i64, o.message().to_string(), o.data().map(|d| serde_json::from_str(d.get()).unwrap())),
					})
					.collect(),
				s,
				f,
			))
		}
		Err(e) => Err(format!("{e:?}")),
	}
}

/// The oracle shared by both clients.
/// `id_of`: nonce -> wire id; `sent`: everything the peer sent; `delivered_before(seq, stamp)`.
fn check_batches(client_kind: &str, recs: &[BatchRec], id_of: &BTreeMap<u64, String>, sent: &[Sent], delivered_before: &dyn Fn(u64, u64) -> bool, all_friendly: bool) {
	let mut nontrivial = false;
	for r in recs {
		match &r.result {
			Ok((list, succ, fail)) => {
				if list.len() != r.nonces.len() {
					let sig = if list.len() < r.nonces.len() { "shorter" } else { "longer" };
					rt::violate(P, "wrong-length", format!("{client_kind}:{sig}"), format!("batch of {} entries {:?} returned {} results: {list:?}", r.nonces.len(), r.nonces, list.len()));
				}
				let n_ok = list.iter().filter(|a| matches!(a, Ans::Ok(_))).count();
				let n_err = list.len() - n_ok;
				if *succ != n_ok || *fail != n_err {
					rt::violate(P, "count-mismatch", client_kind.to_string(), format!("batch {:?}: num_successful_calls={succ} num_failed_calls={fail} but the list has {n_ok} Ok and {n_err} Err entries: {list:?}", r.nonces));
				}
				for (i, (n, a)) in r.nonces.iter().zip(list).enumerate() {
					let Some(id) = id_of.get(n) else { continue };
					let own: Vec<&Sent> = sent.iter().filter(|s| &s.id == id && (s.for_nonce.is_none() || s.for_nonce == Some(*n)) && delivered_before(s.seq, r.done_stamp)).collect();
					// A reply that repeats an id gives two answers to one entry: the call fails or that entry is reported as
					// an error - it is not for the client to pick one of them. (Judged when one reply message alone ever
					// addressed this id, so that it is the reply that completed the call.)
					let every: Vec<&Sent> = sent.iter().filter(|s| &s.id == id && (s.for_nonce.is_none() || s.for_nonce == Some(*n))).collect();
					if every.len() >= 2 && every.iter().all(|s| s.seq == every[0].seq) && own.len() == every.len() && own.iter().any(|s| &s.ans == a) {
						rt::violate(P, "repeated-id-accepted", client_kind.to_string(), format!("batch {:?}: the reply answered id {id} {} times ({:?}); the call succeeded and entry {i} holds {a:?}", r.nonces, every.len(), every.iter().map(|s| &s.ans).collect::<Vec<_>>()));
						continue;
					}
					if own.iter().any(|s| &s.ans == a) {
						if own.len() == 1 && i > 0 {
							nontrivial = true;
						}
						continue;
					}
					// someone else's answer?
					if let Some(o) = sent.iter().find(|s| &s.ans == a) {
						// the same digits in the other JSON type ("3" for 3) are not the id the request carried
						let other_type = o.id != *id && o.id.trim_matches('"') == id.trim_matches('"');
						rt::violate(P, "misplaced-entry", if other_type { format!("id-of-the-other-json-type:{client_kind}") } else { client_kind.to_string() }, format!("batch {:?}: entry {i} (id {id}) was filled with {a:?}, which the peer sent for id {} (request nonce {:?})", r.nonces, o.id, o.for_nonce));
					} else if matches!(a, Ans::Ok(_)) {
						rt::violate(P, "invented-entry", client_kind.to_string(), format!("batch {:?}: entry {i} (id {id}) holds {a:?}, which the peer never sent", r.nonces));
					}
					// otherwise: an error the peer did not send = the client's own "no answer" marker: allowed
				}
			}
			Err(e) => {
				if all_friendly {
					rt::violate(P, "friendly-batch-failed", client_kind.to_string(), format!("batch {:?} failed with {e} although every reply was a complete permutation", r.nonces));
				}
			}
		}
	}
	if nontrivial {
		rt::probe("nontrivial");
	}
}

// ------------------------------------------------------------------------------------------------
// WebSocket-style client

pub async fn scenario_ws() {
	let n_batches = rt::draw_range("n_batches", 1, 3);
	let n_singles = rt::draw("n_singles", 3);
	let id_str = rt::chance("id_kind", 1, 3);
	let sizes: Vec<u32> = (0..n_batches).map(|_| rt::draw_range("size", 1, 6)).collect();
	let hostile_run = rt::chance("hostile_run", 2, 3);
	rt::event("plan", format!("batches={sizes:?} singles={n_singles} id_str={id_str} hostile_run={hostile_run}"));

	let (wire, tx, rx) = Wire::new();
	let client = Arc::new(
		Client::builder()
			.id_format(if id_str { IdKind::String } else { IdKind::Number })
			.request_timeout(Duration::from_secs(60))
			.build_with_tokio(tx, rx),
	);
	let sent: Arc<Mutex<Vec<Sent>>> = Arc::default();
	let modes: Arc<Mutex<Vec<Mode>>> = Arc::default();
	let nonce_ctr = Arc::new(AtomicU64::new(1));

	// peer
	let peer = {
		let (wire, sent, modes) = (wire.clone(), sent.clone(), modes.clone());
		rt::spawn("peer", async move {
			let mut ctr = 1_000_000u64;
			// outstanding: ((id, nonce) per entry, is_batch)
			type Out = Vec<(Vec<(Value, Option<u64>)>, bool)>;
			let mut outstanding: Out = Vec::new();
			let reg = |m: super::OutMsg, o: &mut Out| match parse_out(&m.text) {
				Parsed::Call { id, params, .. } => o.push((vec![(id, nonce_of(&params))], false)),
				Parsed::Batch(es) => o.push((es.iter().filter_map(|e| if let Parsed::Call { id, params, .. } = e { Some((id.clone(), nonce_of(params))) } else { None }).collect(), true)),
				_ => {}
			};
			loop {
				while let Some(m) = wire.try_next_out() {
					reg(m, &mut outstanding);
				}
				if outstanding.is_empty() {
					match wire.next_out().await {
						Some(m) => reg(m, &mut outstanding),
						None => break,
					}
					continue;
				}
				match rt::draw("peer-act", 6) {
					0 => tokio::time::sleep(Duration::from_millis(rt::draw_range("lat", 1, 30) as u64)).await,
					1 => rt::yield_n(1).await,
					_ => {
						let k = rt::draw("which", outstanding.len() as u32) as usize;
						let (entries, is_batch) = outstanding.remove(k);
						let ids: Vec<Value> = entries.iter().map(|e| e.0.clone()).collect();
						if !is_batch {
							let a = fresh_ans(&mut ctr);
							let seq = wire.push_text(ans_to_text(&ids[0], &a));
							sent.lock().unwrap().push(Sent { id: ids[0].to_string(), ans: a, seq, for_nonce: entries[0].1 });
							continue;
						}
						let others: Vec<usize> = outstanding.iter().enumerate().filter(|(_, o)| o.1).map(|(i, _)| i).collect();
						let mode = if hostile_run { draw_mode(!others.is_empty()) } else { Mode::Full };
						modes.lock().unwrap().push(mode);
						rt::probe(match mode {
							Mode::Full => "reply.full",
							Mode::Subset => "reply.subset",
							Mode::Dup => "reply.dup",
							Mode::Foreign => "reply.foreign",
							Mode::Mix => "reply.mix",
						});
						let nonce_in = |list: &[(Value, Option<u64>)], id: &Value| list.iter().find(|e| &e.0 == id).and_then(|e| e.1);
						let mut els: Vec<(Value, Ans, Option<u64>)> = build_reply(&ids, mode, &mut ctr, id_str).into_iter().map(|(i, a)| { let n = nonce_in(&entries, &i); (i, a, n) }).collect();
						if mode == Mode::Mix {
							// merge with the complete reply of another outstanding batch, in one array
							let j = others[rt::draw("mix_with", others.len() as u32) as usize];
							let (entries2, _) = outstanding.remove(j);
							let ids2: Vec<Value> = entries2.iter().map(|e| e.0.clone()).collect();
							let more = build_reply(&ids2, Mode::Full, &mut ctr, id_str);
							for (i, a) in more {
								let at = rt::draw("mix_at", els.len() as u32 + 1) as usize;
								let n = nonce_in(&entries2, &i);
								els.insert(at, (i, a, n));
							}
						}
						let text = format!("[{}]", els.iter().map(|(i, a, _)| ans_to_text(i, a)).collect::<Vec<_>>().join(","));
						let seq = wire.push_text(text);
						for (i, a, n) in els {
							sent.lock().unwrap().push(Sent { id: i.to_string(), ans: a, seq, for_nonce: n });
						}
					}
				}
			}
		})
	};

	let recs: Arc<Mutex<Vec<BatchRec>>> = Arc::default();
	let singles: Arc<Mutex<Vec<(u64, u64, Result<Ans, String>)>>> = Arc::default();
	let mut hs = Vec::new();
	for size in sizes {
		let (client, recs, nonce_ctr) = (client.clone(), recs.clone(), nonce_ctr.clone());
		hs.push(rt::spawn("front", async move {
			let nonces: Vec<u64> = (0..size).map(|_| nonce_ctr.fetch_add(1, Ordering::Relaxed)).collect();
			let mut b = BatchRequestBuilder::new();
			for n in &nonces {
				b.insert("m", rpc_params![*n]).unwrap();
			}
			rt::event("op-batch", format!("nonces={nonces:?}"));
			let r: Result<BatchResponse<Value>, Error> = client.batch_request(b).await;
			let st = rt::event("op-done", format!("nonces={nonces:?} {r:?}"));
			recs.lock().unwrap().push(BatchRec { nonces, done_stamp: st, result: batch_result(r) });
		}));
	}
	for _ in 0..n_singles {
		let (client, singles, nonce_ctr) = (client.clone(), singles.clone(), nonce_ctr.clone());
		hs.push(rt::spawn("front", async move {
			let n = nonce_ctr.fetch_add(1, Ordering::Relaxed);
			let r: Result<Value, Error> = client.request("m", rpc_params![n]).await;
			let st = rt::event("op-done", format!("single nonce={n} {r:?}"));
			let res = match r {
				Ok(v) => Ok(Ans::Ok(v)),
				Err(e) => super::calls::client_err_to_ans(&e),
			};
			singles.lock().unwrap().push((n, st, res));
		}));
	}
	for h in hs {
		let _ = h.await;
	}

	// oracle
	let mut id_of = BTreeMap::new();
	{
		let w = wire.lock();
		for m in &w.out_log {
			let mut reg = |p: &Parsed| {
				if let Parsed::Call { id, params, .. } = p {
					if let Some(n) = nonce_of(params) {
						id_of.insert(n, id.to_string());
					}
				}
			};
			match parse_out(&m.text) {
				Parsed::Batch(es) => es.iter().for_each(&mut reg),
				p => reg(&p),
			}
		}
	}
	let all_friendly = modes.lock().unwrap().iter().all(|m| *m == Mode::Full);
	let sent_v = sent.lock().unwrap().clone();
	let delivered_before = |seq: u64, stamp: u64| wire.delivered_stamp(seq).is_some_and(|d| d < stamp);
	check_batches("ws", &recs.lock().unwrap(), &id_of, &sent_v, &delivered_before, all_friendly);
	for (n, st, res) in singles.lock().unwrap().iter() {
		if let (Ok(a), Some(id)) = (res, id_of.get(n)) {
			if !sent_v.iter().any(|s| &s.id == id && (s.for_nonce.is_none() || s.for_nonce == Some(*n)) && &s.ans == a && delivered_before(s.seq, *st)) {
				rt::violate(P, "single-call-wrong-answer", "ws", format!("single call nonce={n} id={id} completed with {a:?}, not sent for that id"));
			}
		} else if let (Err(e), true) = (res, all_friendly) {
			rt::violate(P, "friendly-batch-failed", "ws:single", format!("single call nonce={n} failed with {e} in a run where every reply was well-formed"));
		}
	}
	drop(client);
	let _ = peer.await;
}

// ------------------------------------------------------------------------------------------------
// HTTP client: harness tower layer instead of the hyper connection pool

use jsonrpsee_http_client::{HttpClient, HttpRequest, HttpResponse, transport::Error as TransportError};

#[derive(Clone)]
struct Backend {
	sent: Arc<Mutex<Vec<Sent>>>,
	modes: Arc<Mutex<Vec<Mode>>>,
	req_seq: Arc<AtomicU64>,
	ctr: Arc<Mutex<u64>>,
	id_of: Arc<Mutex<BTreeMap<u64, String>>>,
	hostile_run: bool,
	id_str: bool,
}

struct BackendLayer(Backend);
impl<S> tower::Layer<S> for BackendLayer {
	type Service = Backend;
	fn layer(&self, _inner: S) -> Backend {
		self.0.clone()
	}
}

impl tower::Service<HttpRequest> for Backend {
	type Response = HttpResponse<http_body_util::Full<bytes::Bytes>>;
	type Error = TransportError;
	type Future = Pin<Box<dyn Future<Output = Result<Self::Response, Self::Error>> + Send>>;

	fn poll_ready(&mut self, _cx: &mut Context<'_>) -> Poll<Result<(), Self::Error>> {
		Poll::Ready(Ok(()))
	}

	fn call(&mut self, req: HttpRequest) -> Self::Future {
		let this = self.clone();
		Box::pin(async move {
			use http_body_util::BodyExt;
			let body = req.into_body().collect().await.map_err(|_| TransportError::RequestTooLarge)?.to_bytes();
			let text = String::from_utf8_lossy(&body).to_string();
			let seq = this.req_seq.fetch_add(1, Ordering::Relaxed) + 1;
			rt::event("http-request", format!("#{seq} {text}"));
			// virtual latency and scheduling points
			if rt::chance("http_lat", 1, 2) {
				tokio::time::sleep(Duration::from_millis(rt::draw_range("lat", 1, 30) as u64)).await;
			}
			rt::yield_n(rt::draw("http_yield", 3)).await;
			let mut ctr = this.ctr.lock().unwrap();
			let reply = match parse_out(&text) {
				Parsed::Call { id, params, .. } => {
					if let Some(n) = nonce_of(&params) {
						this.id_of.lock().unwrap().insert(n, id.to_string());
					}
					let a = fresh_ans(&mut ctr);
					this.sent.lock().unwrap().push(Sent { id: id.to_string(), ans: a.clone(), seq, for_nonce: None });
					ans_to_text(&id, &a)
				}
				Parsed::Batch(es) => {
					let mut ids = Vec::new();
					for e in &es {
						if let Parsed::Call { id, params, .. } = e {
							if let Some(n) = nonce_of(params) {
								this.id_of.lock().unwrap().insert(n, id.to_string());
							}
							ids.push(id.clone());
						}
					}
					let mode = if this.hostile_run { draw_mode(false) } else { Mode::Full };
					this.modes.lock().unwrap().push(mode);
					rt::probe(match mode {
						Mode::Full => "reply.full",
						Mode::Subset => "reply.subset",
						Mode::Dup => "reply.dup",
						Mode::Foreign => "reply.foreign",
						Mode::Mix => "reply.mix",
					});
					let els = build_reply(&ids, mode, &mut ctr, this.id_str);
					let t = format!("[{}]", els.iter().map(|(i, a)| ans_to_text(i, a)).collect::<Vec<_>>().join(","));
					for (i, a) in els {
						this.sent.lock().unwrap().push(Sent { id: i.to_string(), ans: a, seq, for_nonce: None });
					}
					t
				}
				_ => "null".to_string(),
			};
			drop(ctr);
			rt::event("http-reply", format!("#{seq} {reply}"));
			Ok(http::Response::builder().status(200).header("content-type", "application/json").body(http_body_util::Full::new(bytes::Bytes::from(reply))).unwrap())
		})
	}
}

pub async fn scenario_http() {
	let n_batches = rt::draw_range("n_batches", 1, 3);
	let n_singles = rt::draw("n_singles", 2);
	let id_str = rt::chance("id_kind", 1, 3);
	let sizes: Vec<u32> = (0..n_batches).map(|_| rt::draw_range("size", 1, 6)).collect();
	let hostile_run = rt::chance("hostile_run", 2, 3);
	rt::event("plan", format!("http batches={sizes:?} singles={n_singles} id_str={id_str} hostile_run={hostile_run}"));
	let backend = Backend {
		sent: Arc::default(),
		modes: Arc::default(),
		req_seq: Arc::default(),
		ctr: Arc::new(Mutex::new(1_000_000)),
		id_of: Arc::default(),
		hostile_run,
		id_str,
	};
	let client: Arc<HttpClient<_>> = Arc::new(
		HttpClient::builder()
			.id_format(if id_str { IdKind::String } else { IdKind::Number })
			.request_timeout(Duration::from_secs(60))
			.set_http_middleware(tower::ServiceBuilder::new().layer(BackendLayer(backend.clone())))
			.build("http://sim.invalid:80")
			.expect("http client"),
	);
	let nonce_ctr = Arc::new(AtomicU64::new(1));
	let recs: Arc<Mutex<Vec<BatchRec>>> = Arc::default();
	let singles: Arc<Mutex<Vec<(u64, u64, Result<Ans, String>)>>> = Arc::default();
	let mut hs = Vec::new();
	for size in sizes {
		let (client, recs, nonce_ctr) = (client.clone(), recs.clone(), nonce_ctr.clone());
		hs.push(rt::spawn("front", async move {
			let nonces: Vec<u64> = (0..size).map(|_| nonce_ctr.fetch_add(1, Ordering::Relaxed)).collect();
			let mut b = BatchRequestBuilder::new();
			for n in &nonces {
				b.insert("m", rpc_params![*n]).unwrap();
			}
			rt::event("op-batch", format!("nonces={nonces:?}"));
			let r: Result<BatchResponse<Value>, Error> = client.batch_request(b).await;
			let st = rt::event("op-done", format!("nonces={nonces:?} {r:?}"));
			recs.lock().unwrap().push(BatchRec { nonces, done_stamp: st, result: batch_result(r) });
		}));
	}
	for _ in 0..n_singles {
		let (client, singles, nonce_ctr) = (client.clone(), singles.clone(), nonce_ctr.clone());
		hs.push(rt::spawn("front", async move {
			let n = nonce_ctr.fetch_add(1, Ordering::Relaxed);
			let r: Result<Value, Error> = client.request("m", rpc_params![n]).await;
			let st = rt::event("op-done", format!("single nonce={n} {r:?}"));
			let res = match r {
				Ok(v) => Ok(Ans::Ok(v)),
				Err(e) => super::calls::client_err_to_ans(&e),
			};
			singles.lock().unwrap().push((n, st, res));
		}));
	}
	for h in hs {
		let _ = h.await;
	}
	let id_of = backend.id_of.lock().unwrap().clone();
	let sent_v = backend.sent.lock().unwrap().clone();
	let all_friendly = backend.modes.lock().unwrap().iter().all(|m| *m == Mode::Full);
	check_batches("http", &recs.lock().unwrap(), &id_of, &sent_v, &|_, _| true, all_friendly);
	for (n, _st, res) in singles.lock().unwrap().iter() {
		match (res, id_of.get(n)) {
			(Ok(a), Some(id)) => {
				if !sent_v.iter().any(|s| &s.id == id && &s.ans == a) {
					rt::violate(P, "single-call-wrong-answer", "http", format!("single call nonce={n} id={id} completed with {a:?}, not sent for that id"));
				}
			}
			(Err(e), _) => rt::violate(P, "friendly-batch-failed", "http:single", format!("single call nonce={n} failed with {e}")),
			_ => {}
		}
	}
}
